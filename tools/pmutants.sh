#!/bin/bash
# usage: tools/pmutants.sh [-j N] [-t tier] [-p PROP] [name-prefix ...]
# Parallel version of runmutants.sh: N queues, each with its own scratch copy of the repository (git worktree under
# /var/tmp, removed at the end), so /repo is never touched and checks of the real tree can run at the same time.
# -p PROP runs every selected change against the check of PROP instead of the property in its name.
# One line per run is appended to /verif/mutants/RESULTS.txt.
N=4; tier=quick; forceprop=""
while getopts "j:t:p:" o; do case $o in j) N=$OPTARG;; t) tier=$OPTARG;; p) forceprop=$OPTARG;; esac; done
shift $((OPTIND-1))
filters=("$@")
match() { [ ${#filters[@]} -eq 0 ] && return 0; for flt in "${filters[@]}"; do case "$1" in $flt*) return 0;; esac; done; return 1; }
cd /verif
vcheck=/verif/bin/vcheck
jobs=()
for f in mutants/*.diff; do
  n=$(basename $f .diff); match $n || continue
  prop=$(echo ${n%%-*} | tr c C); [ -n "$forceprop" ] && prop=$forceprop
  jobs+=("$n /verif/$f $prop")
done
for d in seeded/*/; do
  n=seed-$(basename $d); match $n || continue
  prop=$(basename $d); prop=${prop%%-*}; [ -n "$forceprop" ] && prop=$forceprop
  jobs+=("$n /verif/${d}patch.diff $prop")
done
worker() { # slot
  local k=$1 repo=/var/tmp/mrepo-$$-$1 scratch=/var/tmp/mout-$$-$1
  git -C /repo worktree add -q --detach $repo HEAD || return
  local i=0
  for j in "${jobs[@]}"; do
    if [ $((i % N)) -eq $k ]; then
      set -- $j
      if git -C $repo apply "$2" 2>/dev/null || git -C $repo apply -3 "$2" 2>/dev/null; then
        VERIF_REPO=$repo VERIF_EVIDENCE_DIR=$scratch VERIF_REPLAY_DIR=$scratch $vcheck $3 $tier > $scratch.log 2>&1; rc=$?
        git -C $repo reset -q --hard; git -C $repo clean -fdq
        if [ $rc -eq 1 ]; then res="DETECTED $(grep -m1 'signature:' $scratch.log | cut -c1-160)"; else res="MISSED (rc=$rc): $(tail -1 $scratch.log | cut -c1-160)"; fi
      else
        git -C $repo reset -q --hard; git -C $repo clean -fdq
        res="SKIPPED patch does not apply to HEAD"
      fi
      echo "$(date +%H:%M:%S) $tier $3 $1 :: $res" | tee -a /verif/mutants/RESULTS.txt
      case "$res" in DETECTED*) ;; *) mkdir -p /var/tmp/pm-missed; cp $scratch.log /var/tmp/pm-missed/$1.$3.log 2>/dev/null;; esac
      rm -rf $scratch $scratch.log
    fi
    i=$((i+1))
  done
  git -C /repo worktree remove --force $repo
}
for k in $(seq 0 $((N-1))); do worker $k & done
wait
