#!/bin/bash
# usage: tools/seedverify.sh <seeded dir with patch.diff, seed_demo_test.go, meta.json> [nosuite]
# Confirms in a scratch worktree (never /repo): patch applies and builds, demo passes without / fails with the patch,
# and (unless "nosuite") the repository's own suite still passes with the patch.
export GOFLAGS=-mod=mod GOPROXY=off GOSUMDB=off GOTOOLCHAIN=local
d=$(realpath "$1"); wt=/var/tmp/seedwt-$$
git -C /repo worktree add -q --detach $wt HEAD || exit 2
trap 'git -C /repo worktree remove --force $wt' EXIT
ddir=$(python3 -c "import json;print(json.load(open('$d/meta.json')).get('demo_dir','.'))")
dcmd=$(python3 -c "import json;print(json.load(open('$d/meta.json')).get('demo_cmd',''))")
ddir=${ddir#/tmp/seed-C??/}; ddir=${ddir#/tmp/seed-C??}; [ -z "$ddir" ] && ddir=.
cd $wt
cp $d/seed_demo_test.go $wt/$ddir/seed_demo_test.go
run=$(grep -o 'func Test[A-Za-z0-9_]*' $d/seed_demo_test.go | sed 's/func //' | paste -sd'|')
race=""; echo "$dcmd" | grep -q -- '-race' && race="-race"
cnt=$(echo "$dcmd" | grep -o -- '-count[= ][0-9]*' | grep -o '[0-9]*'); [ -z "$cnt" ] && cnt=1
demo() { (cd $wt/$ddir && timeout 900 go test $race -vet=off -count=$cnt -run "^($run)\$" . > /tmp/seeddemo.$$ 2>&1); }
demo; without=$?
git apply $d/patch.diff || { echo "RESULT $d patch-does-not-apply"; exit 1; }
go build ./... || { echo "RESULT $d does-not-build"; exit 1; }
demo; with=$?
tail -5 /tmp/seeddemo.$$ | cut -c1-200
rm -f $wt/$ddir/seed_demo_test.go
suite=skipped
if [ "$2" != nosuite ]; then
  go test -vet=off -count=1 -timeout 25m ./... 2>&1 | grep -E '^(--- FAIL|FAIL|ok|panic)' > /tmp/seedsuite.$$
  bad=$(grep -E '^--- FAIL' /tmp/seedsuite.$$ | grep -v -E 'TestDNS_reverseDNS|TestHandler_SignalNICStopped|Test_requestExhaust' | wc -l)
  pan=$(grep -c '^panic' /tmp/seedsuite.$$)
  suite="unexpected_failures=$bad panics=$pan"
  [ $bad -ne 0 ] && grep -E '^--- FAIL' /tmp/seedsuite.$$
fi
rm -f /tmp/seeddemo.$$ /tmp/seedsuite.$$
echo "RESULT $(basename $d) demo_without_patch_exit=$without demo_with_patch_exit=$with suite: $suite"
