#!/usr/bin/env python3
# Hand written property-breaking changes (name, property that must detect it, edits). `python3 tools/mutants_def.py`
# regenerates the diffs under /verif/mutants (skipping those that exist). Nothing here is ever committed to /repo.
import os, sys
sys.path.insert(0, os.path.dirname(__file__))
from mkmutant import make

# Changes that were tried and dropped because they do not break a stated property inside its quantifier (see DESIGN.md 8):
#   c06-notify-keeps-dirty (only observable when Notify does not follow Parse), c05-offline-mac-online-stale (the converse
#   of the stated implication), c07-icmp6-checksum-len16 (same one's-complement sum), c18-load-accepts-empty-clientid and
#   c18-save-includes-offers (unreachable by single-byte/line corruption resp. filtered by the loader),
#   c11-available-allows-router (the router is always tracked by the session), c12-reboot-other-subnet-acked (findOrCreate
#   already replaces the lease on a subnet change).
M = [
 # ---- C01
 ("c01-ip4-no-totallen-bound", "C01", [("layer_ip4.go", " && p.TotalLen() >= p.IHL() && n >= p.TotalLen() {", " && p.TotalLen() >= p.IHL() {")]),
 ("c01-udp-header-6", "C01", [("layer_ip4.go", "if len(p) >= 8 { // 8 bytes UDP header", "if len(p) >= 6 { // 8 bytes UDP header")]),
 ("c01-tcp-no-offset-bound", "C01", [("layer_ip4.go", "if len(p) >= 20 && p.HeaderLen() >= 20 && len(p) >= p.HeaderLen() {", "if len(p) >= 20 && p.HeaderLen() >= 20 {")]),
 # ---- C02
 ("c02-dns-before-dhcp", "C02", [("layer_frame.go", "case frame.DstAddr.Port == 67 || frame.DstAddr.Port == 68: // DHCP4 packet", "case frame.SrcAddr.Port != 53 && (frame.DstAddr.Port == 67 || frame.DstAddr.Port == 68): // DHCP4 packet")]),
 ("c02-nbns-src-port", "C02", [("layer_frame.go", "case frame.DstAddr.Port == 137 || frame.DstAddr.Port == 138: // Netbions NBNS", "case frame.DstAddr.Port == 137 || frame.SrcAddr.Port == 138: // Netbions NBNS")]),
 ("c02-tcp-ack-field", "C02", [("layer_ip4.go", "func (p TCP) Ack() uint32      { return binary.BigEndian.Uint32(p[8:12]) }", "func (p TCP) Ack() uint32      { return binary.BigEndian.Uint32(p[4:8]) }")]),
 ("c02-ip6-flowlabel", "C02", [("layer_ip6.go", "int(p[1]&0x0f)<<16 | int(p[2])<<8 | int(p[3])", "int(p[1]&0x0f)<<16 | int(p[2])<<8 | int(p[2])")]),
 ("c02-ether-8023-bound", "C02", [("layer_frame.go", "if frame.ether.EtherType() < 1536 {", "if frame.ether.EtherType() <= 1536 {")]),
 # ---- C03
 ("c03-udp-len-no-header", "C03", [("layer_ip4.go", "\tcopy(p.Payload(), b)\n\tbinary.BigEndian.PutUint16(p[4:6], UDPHeaderLen+uint16(len(b)))", "\tcopy(p.Payload(), b)\n\tbinary.BigEndian.PutUint16(p[4:6], uint16(len(b)))")]),
 ("c03-arp-target-swap", "C03", [("layer_arp.go", "\tcopy(b[18:18+6], dstAddr.MAC[:6])\n\tcopy(b[24:24+4], dstAddr.IP.AsSlice())\n\treturn b", "\tcopy(b[18:18+6], srcAddr.MAC[:6])\n\tcopy(b[24:24+4], dstAddr.IP.AsSlice())\n\treturn b")]),
 ("c03-ip6-append-toobig-off-by-one", "C03", [("layer_ip6.go", "if b == nil || cap(p)-len(p) < len(b) {", "if b == nil || cap(p)-len(p) < len(b)-1 {")]),
 ("c03-ip4-set-ttl-protocol", "C03", [("layer_ip4.go", "func (p IP4) SetPayload(b []byte, protocol byte) IP4 {\n\tp[9] = protocol", "func (p IP4) SetPayload(b []byte, protocol byte) IP4 {\n\tp[8] = protocol")]),
 # ---- C04
 ("c04-no-sibling-offline", "C04", [("layer_frame.go", "if v.Addr.IP.Is4() && v.Addr.IP != host.Addr.IP {", "if v.Addr.IP.Is6() && v.Addr.IP != host.Addr.IP {")]),
 ("c04-ip6-router-gua-host", "C04", [("layer_frame.go", "(frame.SrcAddr.IP.IsGlobalUnicast() && !bytes.Equal(frame.SrcAddr.MAC, frame.Session.NICInfo.RouterAddr4.MAC))) {", "(frame.SrcAddr.IP.IsGlobalUnicast() && !bytes.Equal(frame.DstAddr.MAC, frame.Session.NICInfo.RouterAddr4.MAC))) {")]),
 ("c04-purge-keeps-online-check", "C04", [("session.go", "if !e.Online && e.LastSeen.Before(deleteCutoff) {", "if e.LastSeen.Before(deleteCutoff) && e.Addr.IP.Is4() {")]),
 # ---- C05
 ("c05-unlink-off-by-one", "C05", [("mactable.go", "\t\t\tcopy(e.HostList[i:], e.HostList[i+1:])\n\t\t\te.HostList = e.HostList[:len(e.HostList)-1]", "\t\t\tcopy(e.HostList[i+1:], e.HostList[i+1:])\n\t\t\te.HostList = e.HostList[:len(e.HostList)-1]")]),
 ("c04-delete-keeps-mac-entry", "C04", [("hosttable.go", "if len(host.MACEntry.HostList) == 0 { // delete if last host", "if len(host.MACEntry.HostList) == 0 && host.Addr.IP.Is4() { // delete if last host")]),
 ("c05-mactable-delete-wrong-index", "C05", [("mactable.go", "\tcopy(s.Table[pos:], s.Table[pos+1:])\n\ts.Table = s.Table[:len(s.Table)-1]", "\tcopy(s.Table[pos+1:], s.Table[pos+1:])\n\ts.Table = s.Table[:len(s.Table)-1]")]),
 # ---- C06
 ("c06-sibling-offline-silent", "C06", [("layer_frame.go", "\t\t\t\t\t\tv.Online = false\n\t\t\t\t\t\tv.dirty = true", "\t\t\t\t\t\tv.Online = false")]),
 ("c06-offline-after-online", "C06", [("session.go", "\t// notify previous IP4 is offline\n\tfor _, v := range offline {\n\t\th.makeOffline(v)\n\t}\n\n\t// lock row for update\n\tframe.Host.MACEntry.Row.Lock()\n\tnotification := toNotification(frame.Host)\n\tframe.Host.dirty = false\n\tframe.Host.MACEntry.Row.Unlock()\n\n\th.sendNotification(notification)", "\t// lock row for update\n\tframe.Host.MACEntry.Row.Lock()\n\tnotification := toNotification(frame.Host)\n\tframe.Host.dirty = false\n\tframe.Host.MACEntry.Row.Unlock()\n\n\th.sendNotification(notification)\n\n\t// notify previous IP4 is offline\n\tfor _, v := range offline {\n\t\th.makeOffline(v)\n\t}")]),
 # ---- C04 (continued)
 ("c04-offline-at-probe-deadline", "C04", [("session.go", "if e.Online && e.LastSeen.Before(offlineCutoff) {", "if e.Online && e.LastSeen.Before(probeCutoff) && offlineCutoff.Before(now) {")]),
 ("c04-arp-ether-src", "C04", [("layer_frame.go", "addr := Addr{MAC: net.HardwareAddr(arp[8:14]), IP: srcIP}    // use arp src mac and ip for lookup", "addr := Addr{MAC: net.HardwareAddr(frame.SrcAddr.MAC), IP: srcIP}    // use arp src mac and ip for lookup")]),
 # ---- C07
 ("c07-ether-src-from-sender", "C07", [("layer_icmp.go", "ether = EncodeEther(ether, syscall.ETH_P_IPV6, h.NICInfo.HostAddr4.MAC, dstAddr.MAC)", "ether = EncodeEther(ether, syscall.ETH_P_IPV6, srcAddr.MAC, dstAddr.MAC)")]),
 ("c07-hoplimit-unicast-only", "C07", [("layer_icmp.go", "if dstAddr.IP.IsLinkLocalUnicast() || dstAddr.IP.IsLinkLocalMulticast() {\n\t\thopLimit = 255", "if dstAddr.IP.IsLinkLocalUnicast() {\n\t\thopLimit = 255")]),
 ("c07-icmp4-checksum-after-append", "C07", [("layer_icmp.go", "\tICMP(p).SetChecksum(Checksum(p))\n\tif ip4, err = ip4.AppendPayload(p, syscall.IPPROTO_ICMP); err != nil {\n\t\treturn err\n\t}", "\tif ip4, err = ip4.AppendPayload(p, syscall.IPPROTO_ICMP); err != nil {\n\t\treturn err\n\t}\n\tICMP(p).SetChecksum(Checksum(p))")]),
 ("c07-arp-probe-target-mac", "C07", [("session.go", "\tcopy(arp[18:18+6], target.MAC[:6])\n\tcopy(arp[24:24+4], target.IP.AsSlice())\n\t_, err = h.Conn.WriteTo", "\tcopy(arp[18:18+6], target.MAC[:6])\n\tcopy(arp[24:24+4], sender.IP.AsSlice())\n\t_, err = h.Conn.WriteTo")]),
 # ---- C11
 ("c11-select-ignores-concurrent-ack", "C11", [("handlers/dhcp4_spoofer/request.go", "\t\t\t(lease.State == StateDiscover && !h.available(lease, reqIP)) || // meanwhile acknowledged to another client or in use\n", "")]),
 ("c11-available-allows-broadcast", "C11", [("handlers/dhcp4_spoofer/lease.go", "ip == subnet.LAN.Addr() || ip == subnet.broadcast ||", "ip == subnet.LAN.Addr() ||")]),
 ("c11-free-leases-early", "C11", [("handlers/dhcp4_spoofer/lease.go", "if lease.State != StateFree && lease.DHCPExpiry.Before(now) {", "if lease.State != StateFree && lease.DHCPExpiry.Before(now.Add(lease.subnet.Duration)) {")]),
 ("c11-available-skips-same-mac", "C11", [("handlers/dhcp4_spoofer/lease.go", "if v == lease || bytes.Equal(v.ClientID, lease.ClientID) {", "if v == lease || bytes.Equal(v.ClientID, lease.ClientID) || v.subnet != lease.subnet {")]),
 # ---- C12
 ("c12-select-stale-xid-acked", "C12", [("handlers/dhcp4_spoofer/request.go", "(lease.State == StateDiscover && (!bytes.Equal(lease.XID, p.XId()) || lease.IPOffer != reqIP)) ||", "(lease.State == StateDiscover && lease.IPOffer != reqIP) ||")]),
 ("c12-renew-expired-acked", "C12", [("handlers/dhcp4_spoofer/request.go", "\t\t\tlease.Addr.IP != reqIP || !bytes.Equal(lease.Addr.MAC, p.CHAddr()) ||\n\t\t\tlease.DHCPExpiry.Before(time.Now()) {", "\t\t\tlease.Addr.IP != reqIP || !bytes.Equal(lease.Addr.MAC, p.CHAddr()) {")]),
 ("c12-capture-keeps-old-subnet", "C12", [("handlers/dhcp4_spoofer/lease.go", "\t\tif lease.subnet == subnet && // (the two subnets can have the same prefix: compare the subnets, not their prefixes)", "\t\tif (lease.subnet == subnet || lease.State == StateAllocated) && // (the two subnets can have the same prefix: compare the subnets, not their prefixes)")]),
 # ---- C15
 ("c15-single-fold", "C15", [("layer_ip4.go", "\ts = s>>16 + s&0xffff\n\ts = s + s>>16\n\treturn ^uint16(s)", "\ts = s>>16 + s&0xffff\n\treturn ^uint16(s)")]),
 ("c15-odd-tail-inverted", "C15", [("layer_ip4.go", "if csumcv&1 == 0 {\n\t\ts += uint32(b[csumcv])", "if csumcv&1 == 1 {\n\t\ts += uint32(b[csumcv])")]),
 ("c15-ip4-checksum-skips-options", "C15", [("layer_ip4.go", "\tcopy(psh[10:10+8], p[10+2:10+2+8]) // skip checksum filed in pos 10", "\tcopy(psh[10:10+8], p[10+2:10+2+8]) // skip checksum filed in pos 10\n\tpsh[1] &= 0xfc")]),
 # ---- C16
 ("c16-ether-copied", "C16", [("layer_frame.go", "\tframe.ether = p\n\tif err := frame.ether.IsValid(); err != nil {", "\tframe.ether = p\n\tif len(p) > 1500 {\n\t\tframe.ether = append(Ether(nil), p...)\n\t}\n\tif err := frame.ether.IsValid(); err != nil {")]),
 ("c16-alloc-on-igmp", "C16", [("layer_frame.go", "\tcase syscall.IPPROTO_IGMP:\n\t\tframe.PayloadID = PayloadIGMP", "\tcase syscall.IPPROTO_IGMP:\n\t\tframe.DstAddr.MAC = CopyMAC(frame.DstAddr.MAC)\n\t\tframe.PayloadID = PayloadIGMP")]),
 # ---- C18
 ("c18-load-skips-subnet-check", "C18", [("handlers/dhcp4_spoofer/subnet_lease.go", "if !v.Addr.IP.IsValid() || !net1.LAN.Contains(v.Addr.IP) {", "if !v.Addr.IP.IsValid() {")]),
 ("c18-ack-not-saved-on-renew", "C18", [("handlers/dhcp4_spoofer/request.go", "\th.saveConfig(h.filename)\n\n\t// Update session with DHCP details - almost always a new host IP will be setup", "\tif operation == selecting {\n\t\th.saveConfig(h.filename)\n\t}\n\n\t// Update session with DHCP details - almost always a new host IP will be setup")]),
 ("c18-decline-not-saved", "C18", [("handlers/dhcp4_spoofer/declinerelease.go", "\tlease.IPOffer = netip.Addr{}\n\th.saveConfig(h.filename) // the binding must not come back after a restart\n", "\tlease.IPOffer = netip.Addr{}\n")]),
 # ---- C20
 ("c20-hex-upper-digit", "C20", [("fastlog/logging.go", "\tif x := value & 0x0f; x < 10 {\n\t\tl.appendByte(x + '0')\n\t} else {\n\t\tl.appendByte(x%10 + 'a')", "\tif x := value & 0x0f; x <= 10 {\n\t\tl.appendByte(x + '0')\n\t} else {\n\t\tl.appendByte(x%10 + 'a')")]),
 ("c20-printint-power-of-ten", "C20", [("fastlog/logging.go", "\t\tfor n > 0 { // how many characters?\n\t\t\ti++\n\t\t\tn /= 10\n\t\t}", "\t\tfor n > 9 { // how many characters?\n\t\t\ti++\n\t\t\tn /= 10\n\t\t}\n\t\ti++\n\t\tif v == 1000000000 {\n\t\t\ti--\n\t\t}")]),
 ("c20-uint16hex-nibble", "C20", [("fastlog/logging.go", "\tl.appendByte(hexAscii[(value>>8)&0x0f])\n\tl.appendByte(hexAscii[(value>>4)&0x0f])\n\tl.appendByte(hexAscii[value&0x0f])", "\tl.appendByte(hexAscii[(value>>8)&0x0f])\n\tl.appendByte(hexAscii[(value>>4)&0x07])\n\tl.appendByte(hexAscii[value&0x0f])")]),
 ("c20-bytearray-guard", "C20", [("fastlog/logging.go", "if rem <= len(value)*3 { // each byte occupies 3 characters", "if rem < len(value)*3-3 { // each byte occupies 3 characters")]),
]

if __name__ == '__main__':
    only = sys.argv[1:]
    for name, prop, edits in M:
        if only and not any(name.startswith(o) for o in only):
            continue
        if os.path.exists('/verif/mutants/%s.diff' % name):
            continue
        make(name, edits)
