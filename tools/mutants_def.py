#!/usr/bin/env python3
# Hand written property-breaking changes (name, property that must detect it, edits). `python3 tools/mutants_def.py`
# regenerates the diffs under /verif/mutants (skipping those that exist). Nothing here is ever committed to /repo.
import os, sys
sys.path.insert(0, os.path.dirname(__file__))
from mkmutant import make

M = [
 # ---- C01
 ("c01-ip4-no-totallen-bound", "C01", [("layer_ip4.go", " && p.TotalLen() >= p.IHL() && n >= p.TotalLen() {", " && p.TotalLen() >= p.IHL() {")]),
 ("c01-udp-header-6", "C01", [("layer_ip4.go", "if len(p) >= 8 { // 8 bytes UDP header", "if len(p) >= 6 { // 8 bytes UDP header")]),
 ("c01-tcp-no-offset-bound", "C01", [("layer_ip4.go", "if len(p) >= 20 && p.HeaderLen() >= 20 && len(p) >= p.HeaderLen() {", "if len(p) >= 20 && p.HeaderLen() >= 20 {")]),
 # ---- C02
 ("c02-dns-before-dhcp", "C02", [("layer_frame.go", "case frame.DstAddr.Port == 67 || frame.DstAddr.Port == 68: // DHCP4 packet", "case frame.SrcAddr.Port != 53 && (frame.DstAddr.Port == 67 || frame.DstAddr.Port == 68): // DHCP4 packet")]),
 ("c02-nbns-src-port", "C02", [("layer_frame.go", "case frame.DstAddr.Port == 137 || frame.DstAddr.Port == 138: // Netbions NBNS", "case frame.DstAddr.Port == 137 || frame.SrcAddr.Port == 138: // Netbions NBNS")]),
 ("c02-tcp-ack-field", "C02", [("layer_ip4.go", "func (p TCP) Ack() uint32      { return binary.BigEndian.Uint32(p[8:12]) }", "func (p TCP) Ack() uint32      { return binary.BigEndian.Uint32(p[4:8]) }")]),
 ("c02-ip6-flowlabel", "C02", [("layer_ip6.go", "int(p[1]&0x0f)<<16 | int(p[2])<<8 | int(p[3])", "int(p[1]&0x0f)<<16 | int(p[2])<<8 | int(p[2])")]),
 ("c02-ether-8023-bound", "C02", [("layer_frame.go", "if frame.ether.EtherType() < 1536 {", "if frame.ether.EtherType() <= 1536 {")]),
 # ---- C03
 ("c03-udp-len-no-header", "C03", [("layer_ip4.go", "\tcopy(p.Payload(), b)\n\tbinary.BigEndian.PutUint16(p[4:6], UDPHeaderLen+uint16(len(b)))", "\tcopy(p.Payload(), b)\n\tbinary.BigEndian.PutUint16(p[4:6], uint16(len(b)))")]),
 ("c03-arp-target-swap", "C03", [("layer_arp.go", "\tcopy(b[18:18+6], dstAddr.MAC[:6])\n\tcopy(b[24:24+4], dstAddr.IP.AsSlice())\n\treturn b", "\tcopy(b[18:18+6], srcAddr.MAC[:6])\n\tcopy(b[24:24+4], dstAddr.IP.AsSlice())\n\treturn b")]),
 ("c03-ip6-append-toobig-off-by-one", "C03", [("layer_ip6.go", "if b == nil || cap(p)-len(p) < len(b) {", "if b == nil || cap(p)-len(p) < len(b)-1 {")]),
 ("c03-ip4-set-ttl-protocol", "C03", [("layer_ip4.go", "func (p IP4) SetPayload(b []byte, protocol byte) IP4 {\n\tp[9] = protocol", "func (p IP4) SetPayload(b []byte, protocol byte) IP4 {\n\tp[8] = protocol")]),
 # ---- C04
 ("c04-no-sibling-offline", "C04", [("layer_frame.go", "if v.Addr.IP.Is4() && v.Addr.IP != host.Addr.IP {", "if v.Addr.IP.Is6() && v.Addr.IP != host.Addr.IP {")]),
 ("c04-offline-at-probe-deadline", "C04", [("session.go", "if e.Online && e.LastSeen.Before(offlineCutoff) {", "if e.Online && e.LastSeen.Before(probeCutoff) {")]),
 ("c04-ip6-router-gua-host", "C04", [("layer_frame.go", "(frame.SrcAddr.IP.IsGlobalUnicast() && !bytes.Equal(frame.SrcAddr.MAC, frame.Session.NICInfo.RouterAddr4.MAC))) {", "(frame.SrcAddr.IP.IsGlobalUnicast() && !bytes.Equal(frame.DstAddr.MAC, frame.Session.NICInfo.RouterAddr4.MAC))) {")]),
 ("c04-arp-ether-src", "C04", [("layer_frame.go", "addr := Addr{MAC: net.HardwareAddr(arp[8:14]), IP: srcIP}    // use arp src mac and ip for lookup", "addr := Addr{MAC: frame.SrcAddr.MAC, IP: srcIP}    // use arp src mac and ip for lookup")]),
 ("c04-purge-keeps-online-check", "C04", [("session.go", "if !e.Online && e.LastSeen.Before(deleteCutoff) {", "if e.LastSeen.Before(deleteCutoff) && e.Addr.IP.Is4() {")]),
 # ---- C05
 ("c05-unlink-off-by-one", "C05", [("mactable.go", "\t\t\tcopy(e.HostList[i:], e.HostList[i+1:])\n\t\t\te.HostList = e.HostList[:len(e.HostList)-1]", "\t\t\tcopy(e.HostList[i+1:], e.HostList[i+1:])\n\t\t\te.HostList = e.HostList[:len(e.HostList)-1]")]),
 ("c05-delete-keeps-mac-entry", "C05", [("hosttable.go", "if len(host.MACEntry.HostList) == 0 { // delete if last host", "if len(host.MACEntry.HostList) == 0 && host.Addr.IP.Is4() { // delete if last host")]),
 ("c05-offline-mac-online-stale", "C05", [("session.go", "\thost.MACEntry.Online = macOnline\n\thost.MACEntry.Row.Unlock()", "\tif macOnline {\n\t\thost.MACEntry.Online = macOnline\n\t}\n\thost.MACEntry.Row.Unlock()")]),
 ("c05-mactable-delete-wrong-index", "C05", [("mactable.go", "\tcopy(s.Table[pos:], s.Table[pos+1:])\n\ts.Table = s.Table[:len(s.Table)-1]", "\tcopy(s.Table[pos+1:], s.Table[pos+1:])\n\ts.Table = s.Table[:len(s.Table)-1]")]),
 # ---- C06
 ("c06-notify-keeps-dirty", "C06", [("session.go", "\tnotification := toNotification(frame.Host)\n\tframe.Host.dirty = false\n", "\tnotification := toNotification(frame.Host)\n\tframe.Host.dirty = !frame.Host.Online\n")]),
 ("c06-sibling-offline-silent", "C06", [("layer_frame.go", "\t\t\t\t\t\tv.Online = false\n\t\t\t\t\t\tv.dirty = true", "\t\t\t\t\t\tv.Online = false")]),
 ("c06-offline-after-online", "C06", [("session.go", "\t// notify previous IP4 is offline\n\tfor _, v := range offline {\n\t\th.makeOffline(v)\n\t}\n\n\t// lock row for update\n\tframe.Host.MACEntry.Row.Lock()\n\tnotification := toNotification(frame.Host)\n\tframe.Host.dirty = false\n\tframe.Host.MACEntry.Row.Unlock()\n\n\th.sendNotification(notification)", "\t// lock row for update\n\tframe.Host.MACEntry.Row.Lock()\n\tnotification := toNotification(frame.Host)\n\tframe.Host.dirty = false\n\tframe.Host.MACEntry.Row.Unlock()\n\n\th.sendNotification(notification)\n\n\t// notify previous IP4 is offline\n\tfor _, v := range offline {\n\t\th.makeOffline(v)\n\t}")]),
]

if __name__ == '__main__':
    only = sys.argv[1:]
    for name, prop, edits in M:
        if only and not any(name.startswith(o) for o in only):
            continue
        if os.path.exists('/verif/mutants/%s.diff' % name):
            continue
        make(name, edits)
