// vcheck is the check driver: it instruments the current /repo tree through an overlay, builds the harness,
// runs the planned worker jobs, classifies violations against known_findings.json, writes the evidence file and
// exits 0 (property held on everything explored) or 1 (VIOLATION line printed).
//
// usage: vcheck <property> [quick|thorough]      vcheck replay <file>      vcheck selftest
package main

import (
	"bytes"
	"crypto/sha1"
	"encoding/binary"
	"encoding/hex"
	"encoding/json"
	"fmt"
	"os"
	"os/exec"
	"path/filepath"
	"sort"
	"strconv"
	"strings"
	"sync"
	"time"
)

const verifDir = "/verif"

// repoDir is the tree under check: /repo, or a scratch copy when VERIF_REPO is set (used to run deliberately broken
// trees in parallel without touching /repo).
var repoDir = func() string {
	if d := os.Getenv("VERIF_REPO"); d != "" {
		return d
	}
	return "/repo"
}()

type violation struct {
	Sig    string          `json:"sig"`
	What   string          `json:"what"`
	Replay json.RawMessage `json:"replay"`
}

type job struct {
	Args    []string `json:"args"`
	Race    bool     `json:"race"`
	Timeout int      `json:"timeout_s"`
	Bin     string   `json:"bin,omitempty"`
}

type result struct {
	Prop        string           `json:"prop"`
	Job         string           `json:"job"`
	Level       string           `json:"level"`
	Rule        string           `json:"rule"`
	Assumptions []string         `json:"assumptions"`
	Counters    map[string]int64 `json:"counters"`
	Samples     []any            `json:"samples"`
	Violations  []violation      `json:"violations"`
	Exhaustive  bool             `json:"exhaustive"`
	Caps        []string         `json:"caps"`
	Notes       []string         `json:"notes"`
	HashFile    string           `json:"hash_file"`
	Bound       string           `json:"bound"`
}

type finding struct {
	Status    string `json:"status"` // known | fixed
	Property  string `json:"property"`
	Signature string `json:"signature"`
	What      string `json:"what"`
	Commit    string `json:"commit,omitempty"`
}

func goEnv() []string {
	env := os.Environ()
	env = append(env, "GOFLAGS=-mod=mod", "GOPROXY=off", "GOSUMDB=off", "GOTOOLCHAIN=local", "CGO_ENABLED=1")
	return env
}

func run(dir string, env []string, name string, args ...string) (string, error) {
	cmd := exec.Command(name, args...)
	cmd.Dir = dir
	cmd.Env = env
	var buf bytes.Buffer
	cmd.Stdout = &buf
	cmd.Stderr = &buf
	err := cmd.Run()
	return buf.String(), err
}

var curBuilder *builder

func fatal(code int, format string, args ...any) {
	fmt.Fprintf(os.Stderr, "vcheck: "+format+"\n", args...)
	if curBuilder != nil {
		curBuilder.cleanup()
	}
	os.Exit(code)
}

type builder struct {
	scratch string
	overlay string
	bins    map[string]string
}

func newBuilder() *builder {
	base := os.Getenv("VERIF_SCRATCH")
	if base == "" {
		base = "/var/tmp"
	}
	os.MkdirAll(base, 0o755)
	dir, err := os.MkdirTemp(base, "vcheck-")
	if err != nil {
		fatal(2, "scratch: %v", err)
	}
	curBuilder = &builder{scratch: dir, bins: map[string]string{}}
	return curBuilder
}

func (b *builder) cleanup() { os.RemoveAll(b.scratch) }

func (b *builder) instrument() {
	vinstr := filepath.Join(verifDir, "bin", "vinstr")
	if _, err := os.Stat(vinstr); err != nil {
		fatal(2, "%s missing: run setup.sh", vinstr)
	}
	out, err := run(verifDir, goEnv(), vinstr, "-repo", repoDir, "-shim", filepath.Join(verifDir, "shim"), "-out", b.scratch)
	if err != nil {
		fatal(2, "vinstr failed: %v\n%s", err, out)
	}
	b.overlay = filepath.Join(b.scratch, "overlay.json")
}

// modfile writes a go.mod/go.sum pair for the harness module into the scratch directory: the harness sources stay
// read-only, go.sum follows the repository's, and the replace directive points at the tree under check.
func (b *builder) modfile() string {
	mod := filepath.Join(b.scratch, "go.mod")
	if _, err := os.Stat(mod); err == nil {
		return mod
	}
	data, err := os.ReadFile(filepath.Join(verifDir, "harness", "go.mod"))
	if err != nil {
		fatal(2, "harness go.mod: %v", err)
	}
	text := strings.Replace(string(data), "=> /repo", "=> "+repoDir, 1)
	os.WriteFile(mod, []byte(text), 0o644)
	if sum, err := os.ReadFile(filepath.Join(repoDir, "go.sum")); err == nil {
		os.WriteFile(filepath.Join(b.scratch, "go.sum"), sum, 0o644)
	}
	return mod
}

// build builds the harness binary (race or not) from the current /repo tree.
func (b *builder) build(race bool) string {
	key := "vh"
	if race {
		key = "vh-race"
	}
	if p, ok := b.bins[key]; ok {
		return p
	}
	hdir := filepath.Join(verifDir, "harness")
	modfile := b.modfile()
	bin := filepath.Join(b.scratch, key)
	args := []string{"build", "-modfile", modfile, "-tags", "verif", "-overlay", b.overlay, "-o", bin}
	if race {
		args = append(args, "-race")
	}
	args = append(args, "./cmd/vh")
	out, err := run(hdir, goEnv(), "go", args...)
	if err != nil {
		fatal(2, "harness build failed (race=%v): %v\n%s", race, err, out)
	}
	b.bins[key] = bin
	return bin
}

// buildPlain builds the un-instrumented harness binary (no overlay) from the current /repo tree.
func (b *builder) buildPlain() string {
	if p, ok := b.bins["vplain"]; ok {
		return p
	}
	bin := filepath.Join(b.scratch, "vplain")
	out, err := run(filepath.Join(verifDir, "harness"), goEnv(), "go", "build", "-modfile", b.modfile(), "-tags", "verif", "-o", bin, "./cmd/vplain")
	if err != nil {
		fatal(2, "plain harness build failed: %v\n%s", err, out)
	}
	b.bins["vplain"] = bin
	return bin
}

func loadFindings() []finding {
	var f []finding
	data, err := os.ReadFile(filepath.Join(verifDir, "known_findings.json"))
	if err != nil {
		return nil
	}
	if err := json.Unmarshal(data, &f); err != nil {
		fatal(2, "known_findings.json: %v", err)
	}
	return f
}

type jobOutcome struct {
	job    job
	res    *result
	err    string // infrastructure / crash description
	code   int
	output string
}

func runJobs(b *builder, prop, tier string, jobs []job, seed int64, deadline int64) []jobOutcome {
	par := 16
	if v, err := strconv.Atoi(os.Getenv("VERIF_PAR")); err == nil && v > 0 {
		par = v
	}
	outs := make([]jobOutcome, len(jobs))
	sem := make(chan struct{}, par)
	var wg sync.WaitGroup
	for i, j := range jobs {
		wg.Add(1)
		go func(i int, j job) {
			defer wg.Done()
			sem <- struct{}{}
			defer func() { <-sem }()
			outs[i] = runJob(b, prop, tier, j, i, seed, deadline)
		}(i, j)
	}
	wg.Wait()
	return outs
}

func argVal(args []string, name string) string {
	for i := 0; i+1 < len(args); i++ {
		if args[i] == name {
			return args[i+1]
		}
	}
	return ""
}

func runJob(b *builder, prop, tier string, j job, idx int, seed int64, deadline int64) jobOutcome {
	bin := b.bins["vh"]
	if j.Race {
		bin = b.bins["vh-race"]
	}
	if j.Bin == "vplain" {
		bin = b.bins["vplain"]
	}
	timeout := j.Timeout
	if timeout == 0 {
		timeout = 900
	}
	args := []string{"-prop", prop, "-tier", tier, "-out", b.scratch, "-seed", strconv.FormatInt(seed, 10)}
	if deadline > 0 {
		// the worker stops exploring (exhaustive=false) well before the watchdog would kill it
		if jd := time.Now().Unix() + int64(timeout) - 90; jd < deadline {
			deadline = jd
		}
		args = append(args, "-deadline", strconv.FormatInt(deadline, 10))
	}
	args = append(args, j.Args...)
	cmd := exec.Command(bin, args...)
	cmd.Dir = b.scratch
	cmd.Env = append(goEnv(), "GOTRACEBACK=single", "GOMEMLIMIT=6GiB")
	if j.Race {
		// keep exploring after a report: the worker attributes each new report in the log to the schedule that produced it
		racelog := filepath.Join(b.scratch, fmt.Sprintf("racelog-%d", idx))
		cmd.Env = append(cmd.Env, "GORACE=halt_on_error=0 exitcode=0 log_path="+racelog, "VERIF_RACELOG="+racelog)
	}
	var buf bytes.Buffer
	cmd.Stdout = &buf
	cmd.Stderr = &buf
	o := jobOutcome{job: j}
	if err := cmd.Start(); err != nil {
		o.err = "start: " + err.Error()
		o.code = -1
		return o
	}
	done := make(chan error, 1)
	go func() { done <- cmd.Wait() }()
	select {
	case err := <-done:
		if err != nil {
			if ee, ok := err.(*exec.ExitError); ok {
				o.code = ee.ExitCode()
			} else {
				o.code = -1
			}
		}
	case <-time.After(time.Duration(timeout) * time.Second):
		cmd.Process.Kill()
		<-done
		o.code = -2
		o.err = fmt.Sprintf("watchdog: job exceeded %ds", timeout)
	}
	o.output = buf.String()
	jobName := argVal(j.Args, "-job")
	shard := argVal(j.Args, "-shard")
	if shard == "" {
		shard = "0"
	}
	if o.code == 0 {
		data, err := os.ReadFile(filepath.Join(b.scratch, fmt.Sprintf("result-%s-%s-%s.json", prop, jobName, shard)))
		if err != nil {
			o.err = "no result file: " + err.Error()
			o.code = -1
			return o
		}
		var r result
		if err := json.Unmarshal(data, &r); err != nil {
			o.err = "bad result file: " + err.Error()
			o.code = -1
			return o
		}
		o.res = &r
		return o
	}
	if o.err == "" {
		o.err = fmt.Sprintf("worker exit code %d", o.code)
	}
	// attribute the crash to the case in progress
	if data, err := os.ReadFile(filepath.Join(b.scratch, fmt.Sprintf("progress-%s-%s-%s", prop, jobName, shard))); err == nil {
		o.err += " while running: " + strings.TrimRight(string(data), "\x00")
	}
	return o
}

func mergeDistinct(files []string) int64 {
	seen := map[uint64]struct{}{}
	for _, f := range files {
		data, err := os.ReadFile(f)
		if err != nil {
			continue
		}
		for i := 0; i+8 <= len(data); i += 8 {
			seen[binary.LittleEndian.Uint64(data[i:])] = struct{}{}
		}
	}
	return int64(len(seen))
}

func tail(s string, n int) string {
	lines := strings.Split(strings.TrimRight(s, "\n"), "\n")
	if len(lines) > n {
		lines = lines[len(lines)-n:]
	}
	return strings.Join(lines, "\n")
}

func writeReplay(prop string, v violation) string {
	dir := filepath.Join(verifDir, "replays")
	if d := os.Getenv("VERIF_REPLAY_DIR"); d != "" {
		dir = d // used when checks are run against deliberately broken trees
	}
	os.MkdirAll(dir, 0o755)
	h := sha1.Sum(append([]byte(v.Sig), v.Replay...))
	name := filepath.Join(dir, fmt.Sprintf("%s-%s.json", prop, hex.EncodeToString(h[:6])))
	data, _ := json.MarshalIndent(map[string]any{"property": prop, "signature": v.Sig, "what": v.What, "replay": v.Replay}, "", " ")
	os.WriteFile(name, data, 0o644)
	return name
}

// matches reports whether sig is covered by the finding signature (exact, or prefix when the finding ends with '*').
func matches(fsig, sig string) bool {
	if strings.HasSuffix(fsig, "*") {
		return strings.HasPrefix(sig, strings.TrimSuffix(fsig, "*"))
	}
	return fsig == sig
}

func check(prop, tier string) int {
	start := time.Now()
	seed, _ := strconv.ParseInt(os.Getenv("VERIF_SEED"), 10, 64)
	b := newBuilder()
	defer b.cleanup()
	b.instrument()
	vh := b.build(false)
	out, err := run(b.scratch, goEnv(), vh, "-plan", "-prop", prop, "-tier", tier)
	if err != nil {
		fatal(2, "plan failed: %v\n%s", err, out)
	}
	var jobs []job
	if err := json.Unmarshal([]byte(out), &jobs); err != nil {
		fatal(2, "plan output: %v\n%s", err, out)
	}
	if only := os.Getenv("VERIF_ONLY_JOB"); only != "" { // development aid: run the jobs with this name prefix only (the evidence then covers those jobs only; never set by a registered command)
		var kept []job
		for _, j := range jobs {
			if strings.HasPrefix(argVal(j.Args, "-job"), only) {
				kept = append(kept, j)
			}
		}
		jobs = kept
	}
	needRace := false
	for _, j := range jobs {
		if j.Race {
			needRace = true
		}
		if j.Bin == "vplain" {
			b.buildPlain()
		}
	}
	if needRace {
		rb := b.build(true)
		// the race detector must see through the scheduler: toy must be reported, locked toy must not
		env := append(goEnv(), "GORACE=halt_on_error=1 exitcode=66")
		if _, err := run(b.scratch, env, rb, "-toy", "unlocked"); err == nil {
			fatal(2, "race self test failed: unlocked toy not reported")
		}
		if o, err := run(b.scratch, env, rb, "-toy", "locked"); err != nil {
			fatal(2, "race self test failed: locked toy reported\n%s", o)
		}
	}
	// internal time budget: leave the run with exit 0 / exhaustive=false rather than being killed
	budget := 1500
	if tier == "thorough" {
		budget = 3300
	}
	if v, err := strconv.Atoi(os.Getenv("VERIF_BUDGET_S")); err == nil && v > 0 {
		budget = v
	}
	deadline := start.Add(time.Duration(budget) * time.Second).Unix()
	outs := runJobs(b, prop, tier, jobs, seed, deadline)
	// a worker that died without a result (killed by the kernel's OOM killer on behalf of another process, a fork
	// failure on an overloaded machine, ...) is run once more, alone; only if it dies again is it a crash of the
	// code under test. The retry is recorded in the evidence notes.
	var retried []string
	for i, o := range outs {
		if o.res == nil && o.code != 66 {
			o2 := runJob(b, prop, tier, o.job, i, seed, deadline)
			if o2.res != nil {
				retried = append(retried, fmt.Sprintf("worker %v died (%s) and completed normally when it was run again", o.job.Args, o.err))
				outs[i] = o2
			}
		}
	}

	// merge
	counters := map[string]int64{}
	var samples []any
	var viols []violation
	var hashFiles []string
	var caps, notes, assumptions []string
	notes = append(notes, retried...)
	exhaustive := true
	level, rule, bound := "", "", ""
	seenAssume := map[string]bool{}
	var infra []string
	for _, o := range outs {
		if o.res == nil {
			// a crashed worker: fatal error in the code under test (or the harness). Treated as a violation candidate.
			sig := "crash|worker|" + argVal(o.job.Args, "-job")
			if o.code == 66 {
				sig = "race|" + raceSignature(o.output)
			}
			rp, _ := json.Marshal(map[string]any{"kind": "crash", "args": o.job.Args, "race": o.job.Race, "detail": o.err})
			viols = append(viols, violation{Sig: sig, What: o.err + "\n" + tail(o.output, 40), Replay: rp})
			if o.code == -1 {
				infra = append(infra, o.err+"\n"+tail(o.output, 20))
			}
			exhaustive = false
			continue
		}
		r := o.res
		for k, v := range r.Counters {
			counters[k] += v
		}
		for _, s := range r.Samples {
			if len(samples) < 8 {
				samples = append(samples, s)
			}
		}
		viols = append(viols, r.Violations...)
		if r.HashFile != "" {
			hashFiles = append(hashFiles, r.HashFile)
		}
		caps = append(caps, r.Caps...)
		notes = append(notes, r.Notes...)
		for _, a := range r.Assumptions {
			if !seenAssume[a] {
				seenAssume[a] = true
				assumptions = append(assumptions, a)
			}
		}
		if !r.Exhaustive {
			exhaustive = false
		}
		if r.Level != "" {
			level = r.Level
		}
		if r.Rule != "" {
			rule = r.Rule
		}
		if r.Bound != "" {
			bound = r.Bound
		}
	}
	if len(infra) > 0 {
		fatal(2, "infrastructure failure:\n%s", strings.Join(infra, "\n"))
	}
	distinct := mergeDistinct(hashFiles) + counters["distinct_extra"] // distinct_extra: cases distinct by construction, not hashed

	// classify violations
	findings := loadFindings()
	known := map[string]*finding{}
	for i := range findings {
		f := &findings[i]
		if f.Property == prop && f.Status == "known" {
			known[f.Signature] = f
		}
	}
	reproduced := map[string]bool{}
	bySig := map[string]violation{}
	var sigOrder []string
	for _, v := range viols {
		if _, ok := bySig[v.Sig]; !ok {
			bySig[v.Sig] = v
			sigOrder = append(sigOrder, v.Sig)
		}
	}
	sort.Strings(sigOrder)
	var fresh []violation
	for _, sig := range sigOrder {
		v := bySig[sig]
		matched := false
		for fs := range known {
			if matches(fs, sig) {
				reproduced[fs] = true
				matched = true
			}
		}
		if !matched {
			fresh = append(fresh, v)
		}
	}
	rc := 0
	keys := make([]string, 0, len(known))
	for k := range known {
		keys = append(keys, k)
	}
	sort.Strings(keys)
	for _, k := range keys {
		rep := "no"
		if reproduced[k] {
			rep = "yes"
		}
		fmt.Printf("KNOWN-FINDING: property=%s %s [signature=%s reproduced=%s]\n", prop, known[k].What, k, rep)
	}
	confirmed := 0
	for _, v := range fresh {
		path := writeReplay(prop, v)
		// re-execute the replay artefact 5 times in fresh processes before believing it
		ok, detail := confirm(b, prop, path, v)
		if !ok {
			fatal(2, "violation did not reproduce deterministically (harness nondeterminism) sig=%s\n%s\n%s", v.Sig, v.What, detail)
		}
		confirmed++
		fmt.Printf("VIOLATION property=%s replay=%s\n", prop, path)
		fmt.Printf("  signature: %s\n  %s\n", v.Sig, strings.ReplaceAll(firstLines(v.What, 12), "\n", "\n  "))
		rc = 1
	}

	// evidence
	cov := map[string]any{}
	for k, v := range counters {
		cov[k] = v
	}
	if _, ok := counters["evaluations"]; !ok {
		cov["evaluations"] = counters["transitions"] + counters["executions"]
	}
	cov["distinct_nontrivial"] = distinct
	cov["rule"] = rule
	if len(samples) == 0 {
		samples = []any{"(no sample reported)"}
	}
	cov["samples"] = samples
	cov["exhaustive"] = exhaustive && len(caps) == 0
	if len(caps) > 0 {
		cov["caps_hit"] = caps
	}
	if len(notes) > 0 {
		cov["notes"] = notes
	}
	if bound != "" {
		cov["bound"] = bound
	}
	cov["jobs"] = len(jobs)
	cov["known_findings_reproduced"] = len(reproduced)
	if level == "" {
		level = "exploration"
	}
	if level == "model_checking" && distinct > 0 {
		// workers partition the search; "states" is the number of distinct canonical states over all workers
		cov["states_sum_over_workers"] = counters["states"]
		cov["states"] = distinct
	}
	if level == "model_checking" {
		if _, ok := cov["traces_validated_against_impl"]; !ok {
			cov["traces_validated_against_impl"] = counters["transitions"]
		}
	}
	ev := map[string]any{
		"property_id": prop,
		"tier":        tier,
		"seed":        seed,
		"level":       level,
		"coverage":    cov,
		"assumptions": assumptions,
		"wall_s":      time.Since(start).Seconds(),
		"violations":  confirmed,
	}
	evDir := filepath.Join(verifDir, "evidence")
	if d := os.Getenv("VERIF_EVIDENCE_DIR"); d != "" { // mutant runs must not overwrite the evidence of the real tree
		evDir = d
	}
	os.MkdirAll(evDir, 0o755)
	data, _ := json.MarshalIndent(ev, "", " ")
	os.WriteFile(filepath.Join(evDir, prop+".json"), data, 0o644)
	status := "held"
	if rc != 0 {
		status = "VIOLATED"
	}
	fmt.Printf("%s %s: %s; evaluations=%v states=%v transitions=%v executions=%v distinct=%d exhaustive=%v wall=%.1fs\n", prop, tier, status,
		cov["evaluations"], counters["states"], counters["transitions"], counters["executions"], distinct, cov["exhaustive"], time.Since(start).Seconds())
	return rc
}

func firstLines(s string, n int) string {
	lines := strings.Split(s, "\n")
	if len(lines) > n {
		lines = lines[:n]
	}
	return strings.Join(lines, "\n")
}

// raceSignature extracts the unordered pair of innermost repository functions of a race report.
func raceSignature(out string) string {
	var fns []string
	lines := strings.Split(out, "\n")
	for i, l := range lines {
		t := strings.TrimSpace(l)
		if strings.HasPrefix(t, "Read at") || strings.HasPrefix(t, "Write at") || strings.HasPrefix(t, "Previous read at") || strings.HasPrefix(t, "Previous write at") {
			// first frame below that belongs to the repository (not runtime, not shim)
			for k := i + 1; k < len(lines) && strings.TrimSpace(lines[k]) != ""; k += 2 {
				f := strings.TrimSpace(lines[k])
				if strings.HasPrefix(f, "github.com/irai/packet") && !strings.Contains(f, "verifshim") {
					if p := strings.Index(f, "("); p > 0 {
						f = f[:p]
					}
					f = strings.TrimSuffix(f, ".func1")
					fns = append(fns, strings.TrimPrefix(f, "github.com/irai/packet"))
					break
				}
			}
		}
		if len(fns) == 2 {
			break
		}
	}
	sort.Strings(fns)
	return strings.Join(fns, "+")
}

// confirm re-executes a violation 5 times; all runs must reproduce it.
func confirm(b *builder, prop string, path string, v violation) (bool, string) {
	var r struct {
		Kind string   `json:"kind"`
		Args []string `json:"args"`
		Race bool     `json:"race"`
	}
	json.Unmarshal(v.Replay, &r)
	raceHits := 0
	attempts := 5
	if r.Race && strings.HasPrefix(v.Sig, "race|") {
		attempts = 30 // the detector's bounded shadow history misses a given race on some runs, more often on a loaded machine
	}
	for i := 0; i < attempts; i++ {
		var out string
		var err error
		if r.Kind == "crash" {
			// re-run the same worker job
			o := runJob(b, prop, "quick", job{Args: r.Args, Race: r.Race, Timeout: 900}, 0, 0, 0)
			if o.res != nil {
				return false, "crash replay completed normally"
			}
			continue
		}
		bin := b.bins["vh"]
		if prop == "C16" {
			bin = b.buildPlain()
		}
		if r.Race {
			bin = b.build(true)
		}
		out, err = run(b.scratch, append(goEnv(), "GORACE=halt_on_error=1 exitcode=66"), bin, "-replay", path)
		if r.Race && strings.HasPrefix(v.Sig, "race|") {
			// a race report is never a false alarm, but the detector's bounded shadow history makes it miss a given
			// race on some runs of the very same schedule: one reproduction in five fresh processes confirms it
			if ee, ok := err.(*exec.ExitError); ok && ee.ExitCode() == 66 {
				raceHits++
			}
			if raceHits > 0 {
				return true, ""
			}
			if i == attempts-1 {
				return false, "race report did not reproduce in 30 replays of the schedule"
			}
			continue
		}
		if err == nil {
			return false, fmt.Sprintf("replay %d did not reproduce:\n%s", i, tail(out, 20))
		}
		if ee, ok := err.(*exec.ExitError); ok && r.Race && ee.ExitCode() == 66 {
			continue // the race detector reported again on the same schedule
		}
		if ee, ok := err.(*exec.ExitError); !ok || ee.ExitCode() != 1 {
			return false, fmt.Sprintf("replay %d failed differently: %v\n%s", i, err, tail(out, 20))
		}
	}
	return true, ""
}

func main() {
	if len(os.Args) < 2 {
		fatal(2, "usage: vcheck <property> [quick|thorough] | replay <file> | selftest")
	}
	switch os.Args[1] {
	case "replay":
		if len(os.Args) < 3 {
			fatal(2, "usage: vcheck replay <file>")
		}
		b := newBuilder()
		b.instrument()
		bin := b.build(false)
		out, err := run(b.scratch, goEnv(), bin, "-replay", os.Args[2])
		fmt.Print(out)
		b.cleanup()
		if err != nil {
			os.Exit(1)
		}
		return
	case "selftest":
		b := newBuilder()
		b.instrument()
		b.build(false)
		b.build(true)
		rc := 0
		for _, race := range []bool{false, true} {
			o := runJob(b, "SELF", "quick", job{Args: []string{"-job", "self"}, Race: race}, 0, 0, 0)
			if o.res == nil || len(o.res.Violations) > 0 {
				fmt.Printf("selftest race=%v FAILED: %s %v\n%s\n", race, o.err, o.res, tail(o.output, 30))
				rc = 1
			} else {
				fmt.Printf("selftest race=%v ok\n", race)
			}
		}
		env := append(goEnv(), "GORACE=halt_on_error=1 exitcode=66")
		if _, err := run(b.scratch, env, b.bins["vh-race"], "-toy", "unlocked"); err == nil {
			fmt.Println("selftest FAILED: race toy not reported")
			rc = 1
		}
		if _, err := run(b.scratch, env, b.bins["vh-race"], "-toy", "locked"); err != nil {
			fmt.Println("selftest FAILED: locked toy reported")
			rc = 1
		}
		b.cleanup()
		os.Exit(rc)
	}
	prop := os.Args[1]
	tier := os.Getenv("VERIF_TIER")
	if len(os.Args) > 2 {
		tier = os.Args[2]
	}
	if tier != "thorough" {
		tier = "quick"
	}
	rc := check(prop, tier)
	os.Exit(rc)
}
