#!/usr/bin/env python3
# For every "fixed" entry of known_findings.json write mutants/<prop>-revert-<slug>.diff: the reverse of the fix
# commit (non-test files), if it still applies to the current tree. The repo is only read.
import json, subprocess, re, os, sys
kf = json.load(open('/verif/known_findings.json'))
seen = set()
for e in kf:
    if e.get('status') != 'fixed':
        continue
    c, prop = e['commit'], e['property']
    if (c, prop) in seen:
        continue
    seen.add((c, prop))
    subj = subprocess.run(['git', '-C', '/repo', 'log', '-1', '--format=%s', c], capture_output=True, text=True).stdout.strip()
    slug = re.sub(r'[^a-z0-9]+', '-', subj.lower().replace('fix:', '')).strip('-')[:40]
    name = '%s-revert-%s' % (prop.lower(), slug)
    path = '/verif/mutants/%s.diff' % name
    d = subprocess.run(['git', '-C', '/repo', 'diff', c, c + '^', '--', '.', ':!*_test.go'], capture_output=True, text=True).stdout
    if not d.strip():
        continue
    chk = subprocess.run(['git', '-C', '/repo', 'apply', '--check', '-'], input=d, capture_output=True, text=True)
    if chk.returncode != 0:
        print('SKIP (does not apply any more)', name)
        continue
    import glob, hashlib
    if any(open(f).read() == d for f in glob.glob('/verif/mutants/*.diff')):
        continue
    if not os.path.exists(path):
        open(path, 'w').write(d)
        print('wrote', name)
