#!/usr/bin/env python3
# Prints the quick-tier cost table of DESIGN.md section 5 from the evidence files (run after a quick round).
import json, glob
print('| id | evaluations | states | transitions / scheduling points | executions | distinct non-trivial | wall |')
print('|---|---|---|---|---|---|---|')
f = lambda v: '–' if not v else format(int(v), ',')
for p in sorted(glob.glob('/verif/evidence/C??.json')):
    d = json.load(open(p)); c = d['coverage']
    print('| %s | %s | %s | %s | %s | %s | %ds |' % (d['property_id'], f(c.get('evaluations')), f(c.get('states')), f(c.get('transitions')), f(c.get('executions')), f(c.get('distinct_nontrivial')), round(d['wall_s'])))
