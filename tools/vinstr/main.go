// vinstr rewrites the non-test sources of the instrumented packages of /repo (current working tree) so that every
// concurrency, time, randomness and file primitive is routed through the verifshim packages, and writes a
// go build -overlay file. /repo itself is never modified.
//
// usage: vinstr -repo /repo -shim /verif/shim -out <scratch dir>   (writes <scratch>/overlay.json)
package main

import (
	"bytes"
	"encoding/json"
	"flag"
	"fmt"
	"go/ast"
	"go/printer"
	"go/token"
	"go/types"
	"os"
	"path/filepath"
	"sort"
	"strconv"
	"strings"

	"golang.org/x/tools/go/packages"
)

const shimImport = "github.com/irai/packet/verifshim/"

var instrumentedDirs = []string{".", "handlers/arp_spoofer", "handlers/icmp_spoofer", "handlers/dhcp4_spoofer", "handlers/dns_naming"}

// files that must stay real files or are never reached by a harness
var excluded = map[string]bool{"manufacturer.go": true, "nic.go": true, "socketconn.go": true, "memconn.go": true}

var importMap = map[string][2]string{ // original path -> (local name, shim package)
	"sync":        {"sync", "vsync"},
	"time":        {"time", "vtime"},
	"math/rand":   {"rand", "vrand"},
	"crypto/rand": {"rand", "vrand"},
	"io/ioutil":   {"ioutil", "vfs"},
}

type rewriter struct {
	info      *types.Info
	fset      *token.FileSet
	file      string
	needSched bool
	needFuel  bool
	needEnv   bool
	needFS    bool
	fileOps   bool // the file reads/writes of this file go through vfs: its renames/removes must too
	errs      []string
	tmp       int
	stats     map[string]int
}

func (r *rewriter) errorf(pos token.Pos, format string, args ...any) {
	r.errs = append(r.errs, fmt.Sprintf("%s: %s", r.fset.Position(pos), fmt.Sprintf(format, args...)))
}

func sel(pkg, name string) ast.Expr {
	return &ast.SelectorExpr{X: ast.NewIdent(pkg), Sel: ast.NewIdent(name)}
}

func callStmt(pkg, name string, args ...ast.Expr) ast.Stmt {
	return &ast.ExprStmt{X: &ast.CallExpr{Fun: sel(pkg, name), Args: args}}
}

func (r *rewriter) fuelStmt() ast.Stmt {
	r.needFuel = true
	return callStmt("vfuel", "Step")
}

func (r *rewriter) newTmp(prefix string) *ast.Ident {
	r.tmp++
	return ast.NewIdent(fmt.Sprintf("_v%s%d", prefix, r.tmp))
}

// callsItself reports whether the function body contains a direct call to name.
func callsItself(fd *ast.FuncDecl) bool {
	found := false
	ast.Inspect(fd.Body, func(n ast.Node) bool {
		if c, ok := n.(*ast.CallExpr); ok {
			switch f := c.Fun.(type) {
			case *ast.Ident:
				if f.Name == fd.Name.Name && fd.Recv == nil {
					found = true
				}
			case *ast.SelectorExpr:
				if f.Sel.Name == fd.Name.Name && fd.Recv != nil {
					found = true
				}
			}
		}
		return true
	})
	return found
}

// rewriteStmtList rewrites statements in place, replacing statements that need a different statement kind.
func (r *rewriter) stmts(list []ast.Stmt) []ast.Stmt {
	for i, s := range list {
		list[i] = r.stmt(s)
	}
	return list
}

func (r *rewriter) block(b *ast.BlockStmt) {
	if b == nil {
		return
	}
	b.List = r.stmts(b.List)
}

func (r *rewriter) stmt(s ast.Stmt) ast.Stmt {
	switch n := s.(type) {
	case nil:
		return nil
	case *ast.BlockStmt:
		r.block(n)
	case *ast.ExprStmt:
		n.X = r.expr(n.X)
	case *ast.AssignStmt:
		// v, ok := <-ch
		if len(n.Lhs) == 2 && len(n.Rhs) == 1 {
			if u, ok := n.Rhs[0].(*ast.UnaryExpr); ok && u.Op == token.ARROW {
				r.needSched = true
				r.stats["recv"]++
				n.Rhs[0] = &ast.CallExpr{Fun: sel("vsched", "Recv2"), Args: []ast.Expr{r.expr(u.X)}}
				for i := range n.Lhs {
					n.Lhs[i] = r.expr(n.Lhs[i])
				}
				return n
			}
		}
		for i := range n.Lhs {
			n.Lhs[i] = r.expr(n.Lhs[i])
		}
		for i := range n.Rhs {
			n.Rhs[i] = r.expr(n.Rhs[i])
		}
	case *ast.GoStmt:
		return r.goStmt(n)
	case *ast.DeferStmt:
		n.Call = r.expr(n.Call).(*ast.CallExpr)
	case *ast.ReturnStmt:
		for i := range n.Results {
			n.Results[i] = r.expr(n.Results[i])
		}
	case *ast.IfStmt:
		n.Init = r.stmt(n.Init)
		n.Cond = r.expr(n.Cond)
		r.block(n.Body)
		n.Else = r.stmt(n.Else)
	case *ast.ForStmt:
		n.Init = r.stmt(n.Init)
		if n.Cond != nil {
			n.Cond = r.expr(n.Cond)
		}
		n.Post = r.stmt(n.Post)
		r.block(n.Body)
		n.Body.List = append([]ast.Stmt{r.fuelStmt()}, n.Body.List...)
		r.stats["loops"]++
	case *ast.RangeStmt:
		isMap, isChan := false, false
		if r.info != nil {
			if t := r.info.TypeOf(n.X); t != nil {
				switch t.Underlying().(type) {
				case *types.Map:
					isMap = true
				case *types.Chan:
					isChan = true
				}
			}
		}
		if isChan {
			r.errorf(n.Pos(), "range over a channel is not supported")
		}
		n.X = r.expr(n.X)
		r.block(n.Body)
		n.Body.List = append([]ast.Stmt{r.fuelStmt()}, n.Body.List...)
		r.stats["loops"]++
		if isMap {
			return r.mapRange(n)
		}
	case *ast.SwitchStmt:
		n.Init = r.stmt(n.Init)
		if n.Tag != nil {
			n.Tag = r.expr(n.Tag)
		}
		r.block(n.Body)
	case *ast.TypeSwitchStmt:
		n.Init = r.stmt(n.Init)
		n.Assign = r.stmt(n.Assign)
		r.block(n.Body)
	case *ast.CaseClause:
		for i := range n.List {
			n.List[i] = r.expr(n.List[i])
		}
		n.Body = r.stmts(n.Body)
	case *ast.LabeledStmt:
		inner := r.stmt(n.Stmt)
		if _, wasRange := n.Stmt.(*ast.RangeStmt); wasRange {
			if _, stillRange := inner.(*ast.RangeStmt); !stillRange {
				r.errorf(n.Pos(), "labeled range over a map is not supported")
			}
		}
		n.Stmt = inner
	case *ast.SendStmt:
		r.needSched = true
		r.stats["send"]++
		return &ast.ExprStmt{X: &ast.CallExpr{Fun: sel("vsched", "Send"), Args: []ast.Expr{r.expr(n.Chan), r.expr(n.Value)}}}
	case *ast.SelectStmt:
		return r.selectStmt(n)
	case *ast.DeclStmt:
		if gd, ok := n.Decl.(*ast.GenDecl); ok {
			for _, sp := range gd.Specs {
				if vs, ok := sp.(*ast.ValueSpec); ok {
					for i := range vs.Values {
						vs.Values[i] = r.expr(vs.Values[i])
					}
				}
			}
		}
	case *ast.IncDecStmt:
		n.X = r.expr(n.X)
	case *ast.BranchStmt, *ast.EmptyStmt:
	default:
		r.errorf(s.Pos(), "unsupported statement %T", s)
	}
	return s
}

// mapRange makes the iteration order of a map deterministic (sorted keys): Go's randomised order is a source of
// nondeterminism that the explorer must own.
//
//	for k, v := range M { body }  =>  { _vm := M; for _, k := range vsched.MapKeys(_vm) { v, _vok := _vm[k]; if !_vok { continue }; body } }
func (r *rewriter) mapRange(n *ast.RangeStmt) ast.Stmt {
	r.needSched = true
	r.stats["maprange"]++
	if n.Tok == token.ASSIGN {
		r.errorf(n.Pos(), "range over a map with '=' is not supported")
		return n
	}
	vm := r.newTmp("m")
	var key *ast.Ident
	if id, ok := n.Key.(*ast.Ident); ok && id.Name != "_" {
		key = ast.NewIdent(id.Name)
	} else {
		key = r.newTmp("k")
	}
	var pre []ast.Stmt
	if id, ok := n.Value.(*ast.Ident); ok && id.Name != "_" {
		okv := r.newTmp("ok")
		pre = append(pre,
			&ast.AssignStmt{Lhs: []ast.Expr{ast.NewIdent(id.Name), okv}, Tok: token.DEFINE, Rhs: []ast.Expr{&ast.IndexExpr{X: ast.NewIdent(vm.Name), Index: ast.NewIdent(key.Name)}}},
			&ast.IfStmt{Cond: &ast.UnaryExpr{Op: token.NOT, X: ast.NewIdent(okv.Name)}, Body: &ast.BlockStmt{List: []ast.Stmt{&ast.BranchStmt{Tok: token.CONTINUE}}}})
	} else {
		okv := r.newTmp("ok")
		pre = append(pre,
			&ast.AssignStmt{Lhs: []ast.Expr{ast.NewIdent("_"), okv}, Tok: token.DEFINE, Rhs: []ast.Expr{&ast.IndexExpr{X: ast.NewIdent(vm.Name), Index: ast.NewIdent(key.Name)}}},
			&ast.IfStmt{Cond: &ast.UnaryExpr{Op: token.NOT, X: ast.NewIdent(okv.Name)}, Body: &ast.BlockStmt{List: []ast.Stmt{&ast.BranchStmt{Tok: token.CONTINUE}}}})
	}
	loop := &ast.RangeStmt{Key: ast.NewIdent("_"), Value: key, Tok: token.DEFINE,
		X:    &ast.CallExpr{Fun: sel("vsched", "MapKeys"), Args: []ast.Expr{ast.NewIdent(vm.Name)}},
		Body: &ast.BlockStmt{List: append(pre, n.Body.List...)}}
	return &ast.BlockStmt{List: []ast.Stmt{
		&ast.AssignStmt{Lhs: []ast.Expr{vm}, Tok: token.DEFINE, Rhs: []ast.Expr{n.X}},
		loop,
	}}
}

func (r *rewriter) goStmt(n *ast.GoStmt) ast.Stmt {
	r.needSched = true
	r.stats["go"]++
	call := n.Call
	var pre []ast.Stmt
	for i, a := range call.Args {
		a = r.expr(a)
		if _, lit := a.(*ast.BasicLit); lit {
			call.Args[i] = a
			continue
		}
		if id, ok := a.(*ast.Ident); ok && (id.Name == "nil" || id.Name == "true" || id.Name == "false") {
			call.Args[i] = a
			continue
		}
		t := r.newTmp("a")
		pre = append(pre, &ast.AssignStmt{Lhs: []ast.Expr{t}, Tok: token.DEFINE, Rhs: []ast.Expr{a}})
		call.Args[i] = ast.NewIdent(t.Name)
	}
	if call.Ellipsis.IsValid() {
		r.errorf(n.Pos(), "go statement with variadic spread is not supported")
	}
	switch f := call.Fun.(type) {
	case *ast.FuncLit:
		r.funcLit(f)
	case *ast.SelectorExpr:
		// method value: evaluate the receiver now
		if _, simple := f.X.(*ast.Ident); !simple {
			t := r.newTmp("r")
			pre = append(pre, &ast.AssignStmt{Lhs: []ast.Expr{t}, Tok: token.DEFINE, Rhs: []ast.Expr{r.expr(f.X)}})
			f.X = ast.NewIdent(t.Name)
		}
	case *ast.Ident:
	default:
		r.errorf(n.Pos(), "unsupported go statement function %T", call.Fun)
	}
	closure := &ast.FuncLit{Type: &ast.FuncType{Params: &ast.FieldList{}}, Body: &ast.BlockStmt{List: []ast.Stmt{&ast.ExprStmt{X: call}}}}
	pre = append(pre, callStmt("vsched", "Go", closure))
	return &ast.BlockStmt{List: pre}
}

func (r *rewriter) selectStmt(n *ast.SelectStmt) ast.Stmt {
	r.needSched = true
	r.stats["select"]++
	// the non-blocking send idiom: select { case ch <- v: A  default: B }  ->  if vsched.TrySend(ch, v) { A } else { B }
	if len(n.Body.List) == 2 {
		var send *ast.SendStmt
		var sendBody, defBody []ast.Stmt
		hasDef := false
		for _, c := range n.Body.List {
			cc := c.(*ast.CommClause)
			if cc.Comm == nil {
				hasDef, defBody = true, cc.Body
			} else if ss, ok := cc.Comm.(*ast.SendStmt); ok {
				send, sendBody = ss, cc.Body
			}
		}
		if hasDef && send != nil {
			for _, st := range append(append([]ast.Stmt{}, sendBody...), defBody...) {
				ast.Inspect(st, func(x ast.Node) bool {
					if b, ok := x.(*ast.BranchStmt); ok && b.Tok == token.BREAK && b.Label == nil {
						r.errorf(b.Pos(), "unsupported: unlabelled break inside a non-blocking send select")
					}
					return true
				})
			}
			r.stats["trysend"]++
			cond := &ast.CallExpr{Fun: sel("vsched", "TrySend"), Args: []ast.Expr{r.expr(send.Chan), r.expr(send.Value)}}
			return &ast.IfStmt{Cond: cond, Body: &ast.BlockStmt{List: r.stmts(sendBody)}, Else: &ast.BlockStmt{List: r.stmts(defBody)}}
		}
	}
	var pre []ast.Stmt
	var chans []ast.Expr
	hasDefault := false
	sw := &ast.SwitchStmt{Body: &ast.BlockStmt{}}
	idx := 0
	for _, c := range n.Body.List {
		cc := c.(*ast.CommClause)
		body := r.stmts(cc.Body)
		if cc.Comm == nil {
			hasDefault = true
			sw.Body.List = append(sw.Body.List, &ast.CaseClause{List: nil, Body: body})
			continue
		}
		es, ok := cc.Comm.(*ast.ExprStmt)
		var u *ast.UnaryExpr
		if ok {
			u, ok = es.X.(*ast.UnaryExpr)
		}
		if !ok || u.Op != token.ARROW {
			r.errorf(cc.Pos(), "unsupported select case (only value-less receives are supported)")
			continue
		}
		t := r.newTmp("c")
		pre = append(pre, &ast.AssignStmt{Lhs: []ast.Expr{t}, Tok: token.DEFINE, Rhs: []ast.Expr{r.expr(u.X)}})
		chans = append(chans, ast.NewIdent(t.Name))
		sw.Body.List = append(sw.Body.List, &ast.CaseClause{List: []ast.Expr{&ast.BasicLit{Kind: token.INT, Value: strconv.Itoa(idx)}}, Body: body})
		idx++
	}
	hd := "false"
	if hasDefault {
		hd = "true"
	}
	args := append([]ast.Expr{ast.NewIdent(hd)}, chans...)
	sw.Tag = &ast.CallExpr{Fun: sel("vsched", "Select"), Args: args}
	pre = append(pre, sw)
	return &ast.BlockStmt{List: pre}
}

func (r *rewriter) funcLit(f *ast.FuncLit) {
	r.block(f.Body)
}

func (r *rewriter) expr(e ast.Expr) ast.Expr {
	switch n := e.(type) {
	case nil:
		return nil
	case *ast.UnaryExpr:
		if n.Op == token.ARROW {
			r.needSched = true
			r.stats["recv"]++
			return &ast.CallExpr{Fun: sel("vsched", "Recv"), Args: []ast.Expr{r.expr(n.X)}}
		}
		n.X = r.expr(n.X)
	case *ast.BinaryExpr:
		n.X = r.expr(n.X)
		n.Y = r.expr(n.Y)
	case *ast.CallExpr:
		if id, ok := n.Fun.(*ast.Ident); ok && id.Name == "close" && len(n.Args) == 1 {
			r.needSched = true
			r.stats["close"]++
			return &ast.CallExpr{Fun: sel("vsched", "Close"), Args: []ast.Expr{r.expr(n.Args[0])}}
		}
		if se, ok := n.Fun.(*ast.SelectorExpr); ok {
			if x, ok := se.X.(*ast.Ident); ok && x.Name == "syscall" && se.Sel.Name == "Kill" {
				r.needEnv = true
				r.stats["kill"]++
				n.Fun = sel("venv", "Kill")
			}
			if x, ok := se.X.(*ast.Ident); ok && x.Name == "os" && (se.Sel.Name == "Rename" || se.Sel.Name == "Remove") && r.fileOps {
				r.needFS = true
				r.stats["fileop"]++
				n.Fun = sel("vfs", se.Sel.Name)
			}
		}
		n.Fun = r.expr(n.Fun)
		for i := range n.Args {
			n.Args[i] = r.expr(n.Args[i])
		}
	case *ast.ParenExpr:
		n.X = r.expr(n.X)
	case *ast.SelectorExpr:
		n.X = r.expr(n.X)
	case *ast.IndexExpr:
		n.X = r.expr(n.X)
		n.Index = r.expr(n.Index)
	case *ast.SliceExpr:
		n.X = r.expr(n.X)
		n.Low = r.expr(n.Low)
		n.High = r.expr(n.High)
		n.Max = r.expr(n.Max)
	case *ast.StarExpr:
		n.X = r.expr(n.X)
	case *ast.TypeAssertExpr:
		n.X = r.expr(n.X)
	case *ast.KeyValueExpr:
		n.Value = r.expr(n.Value)
	case *ast.CompositeLit:
		for i := range n.Elts {
			n.Elts[i] = r.expr(n.Elts[i])
		}
	case *ast.FuncLit:
		r.funcLit(n)
	}
	return e
}

// osFileAPI: members of package os that touch the file system; in the DHCP handler package they are served by vfs.
var osFileAPI = map[string]bool{"OpenFile": true, "Create": true, "Open": true, "WriteFile": true, "ReadFile": true, "Rename": true,
	"Remove": true, "RemoveAll": true, "Stat": true, "Lstat": true, "MkdirAll": true, "Mkdir": true, "Chmod": true, "Truncate": true, "Link": true,
	"CreateTemp": true, "File": true}

// osFileUnsupported: file system members of package os that vfs does not model; using them is a hard error.
var osFileUnsupported = map[string]bool{"Symlink": true, "Readlink": true, "ReadDir": true, "MkdirTemp": true, "Chown": true, "Chtimes": true, "DirFS": true, "Getwd": true, "Chdir": true}

func (r *rewriter) rewriteOSFiles(f *ast.File) {
	if !strings.Contains(r.file, "/handlers/dhcp4_spoofer/") {
		return
	}
	importsOS, osStillUsed := false, false
	for _, imp := range f.Imports {
		if imp.Path.Value == `"os"` {
			importsOS = true
		}
	}
	if !importsOS {
		return
	}
	ast.Inspect(f, func(n ast.Node) bool {
		se, ok := n.(*ast.SelectorExpr)
		if !ok {
			return true
		}
		x, ok := se.X.(*ast.Ident)
		if !ok || x.Name != "os" {
			return true
		}
		if pn, ok := r.info.Uses[x].(*types.PkgName); !ok || pn.Imported().Path() != "os" {
			return true
		}
		switch {
		case osFileAPI[se.Sel.Name]:
			se.X = ast.NewIdent("vfs")
			r.needFS = true
			r.stats["fileop"]++
		case osFileUnsupported[se.Sel.Name]:
			r.errorf(se.Pos(), "unsupported file system function os.%s", se.Sel.Name)
		default:
			osStillUsed = true
		}
		return true
	})
	if r.needFS && !osStillUsed {
		// keep the import of os used
		f.Decls = append(f.Decls, &ast.GenDecl{Tok: token.VAR, Specs: []ast.Spec{&ast.ValueSpec{Names: []*ast.Ident{ast.NewIdent("_")}, Values: []ast.Expr{sel("os", "ErrNotExist")}}}})
	}
}

func (r *rewriter) rewriteFile(f *ast.File) {
	r.rewriteOSFiles(f)
	// imports
	for _, imp := range f.Imports {
		p, _ := strconv.Unquote(imp.Path.Value)
		if m, ok := importMap[p]; ok {
			if imp.Name != nil && imp.Name.Name != m[0] {
				r.errorf(imp.Pos(), "import %s has unexpected alias %s", p, imp.Name.Name)
				continue
			}
			imp.Name = ast.NewIdent(m[0])
			imp.Path.Value = strconv.Quote(shimImport + m[1])
			if m[1] == "vfs" {
				r.fileOps = true
			}
			r.stats["import:"+p]++
		}
	}
	for _, d := range f.Decls {
		switch n := d.(type) {
		case *ast.FuncDecl:
			if n.Body == nil {
				continue
			}
			rec := callsItself(n)
			r.block(n.Body)
			if rec {
				n.Body.List = append([]ast.Stmt{r.fuelStmt()}, n.Body.List...)
				r.stats["recursive"]++
			}
		case *ast.GenDecl:
			for _, sp := range n.Specs {
				if vs, ok := sp.(*ast.ValueSpec); ok {
					for i := range vs.Values {
						vs.Values[i] = r.expr(vs.Values[i])
					}
				}
			}
		}
	}
	// add shim imports
	add := func(name string) {
		spec := &ast.ImportSpec{Name: ast.NewIdent(name), Path: &ast.BasicLit{Kind: token.STRING, Value: strconv.Quote(shimImport + name)}}
		gd := &ast.GenDecl{Tok: token.IMPORT, Specs: []ast.Spec{spec}}
		f.Decls = append([]ast.Decl{gd}, f.Decls...)
	}
	if r.needSched {
		add("vsched")
	}
	if r.needFuel {
		add("vfuel")
	}
	if r.needEnv {
		add("venv")
	}
	if r.needFS {
		add("vfs")
	}
}

func main() {
	repo := flag.String("repo", "/repo", "repository root")
	shim := flag.String("shim", "/verif/shim", "shim sources")
	out := flag.String("out", "", "output directory")
	flag.Parse()
	if *out == "" {
		fmt.Fprintln(os.Stderr, "vinstr: -out required")
		os.Exit(2)
	}
	overlay := map[string]string{}
	total := map[string]int{}
	var allErrs []string
	var patterns []string
	for _, d := range instrumentedDirs {
		if d == "." {
			patterns = append(patterns, ".")
		} else {
			patterns = append(patterns, "./"+d)
		}
	}
	cfg := &packages.Config{Mode: packages.NeedName | packages.NeedFiles | packages.NeedCompiledGoFiles | packages.NeedSyntax | packages.NeedTypes | packages.NeedTypesInfo | packages.NeedImports | packages.NeedDeps,
		Dir: *repo, BuildFlags: []string{"-tags=verif"}, Env: append(os.Environ(), "GOFLAGS=-mod=mod", "GOPROXY=off", "GOSUMDB=off", "GOTOOLCHAIN=local")}
	pkgs, err := packages.Load(cfg, patterns...)
	if err != nil {
		fmt.Fprintln(os.Stderr, "vinstr: load:", err)
		os.Exit(2)
	}
	for _, p := range pkgs {
		for _, e := range p.Errors {
			// a tree that does not type check does not build either: go build will report it
			fmt.Fprintln(os.Stderr, "vinstr: warning:", e)
		}
		for fi, f := range p.Syntax {
			src := p.CompiledGoFiles[fi]
			name := filepath.Base(src)
			rel, _ := filepath.Rel(*repo, filepath.Dir(src))
			if !strings.HasSuffix(name, ".go") || strings.HasSuffix(name, "_test.go") || excluded[name] || strings.HasPrefix(rel, "..") {
				continue
			}
			dir := rel
			fset := p.Fset
			// keep build constraints, drop every other comment (positions are not preserved by the rewrite)
			var header []string
			for _, cg := range f.Comments {
				if cg.Pos() > f.Package {
					break
				}
				for _, c := range cg.List {
					if strings.HasPrefix(c.Text, "//go:build") || strings.HasPrefix(c.Text, "// +build") {
						header = append(header, c.Text)
					}
				}
			}
			f.Comments = nil
			f.Doc = nil
			ast.Inspect(f, func(n ast.Node) bool {
				switch x := n.(type) {
				case *ast.FuncDecl:
					x.Doc = nil
				case *ast.GenDecl:
					x.Doc = nil
				case *ast.Field:
					x.Doc, x.Comment = nil, nil
				case *ast.TypeSpec:
					x.Doc, x.Comment = nil, nil
				case *ast.ValueSpec:
					x.Doc, x.Comment = nil, nil
				case *ast.ImportSpec:
					x.Doc, x.Comment = nil, nil
				}
				return true
			})
			r := &rewriter{info: p.TypesInfo, fset: fset, file: src, stats: map[string]int{}}
			r.rewriteFile(f)
			allErrs = append(allErrs, r.errs...)
			for k, v := range r.stats {
				total[k] += v
			}
			var buf bytes.Buffer
			for _, h := range header {
				buf.WriteString(h + "\n")
			}
			if len(header) > 0 {
				buf.WriteString("\n")
			}
			if err := printer.Fprint(&buf, fset, f); err != nil {
				fmt.Fprintln(os.Stderr, "vinstr: print:", err)
				os.Exit(2)
			}
			dst := filepath.Join(*out, "src", dir, name)
			os.MkdirAll(filepath.Dir(dst), 0o755)
			if err := os.WriteFile(dst, buf.Bytes(), 0o644); err != nil {
				fmt.Fprintln(os.Stderr, "vinstr:", err)
				os.Exit(2)
			}
			overlay[src] = dst
		}
	}
	if len(allErrs) > 0 {
		for _, e := range allErrs {
			fmt.Fprintln(os.Stderr, "vinstr: unsupported:", e)
		}
		os.Exit(3)
	}
	// virtual shim packages
	shims, _ := os.ReadDir(*shim)
	for _, sd := range shims {
		if !sd.IsDir() {
			continue
		}
		files, _ := os.ReadDir(filepath.Join(*shim, sd.Name()))
		for _, sf := range files {
			if strings.HasSuffix(sf.Name(), ".go") {
				overlay[filepath.Join(*repo, "verifshim", sd.Name(), sf.Name())] = filepath.Join(*shim, sd.Name(), sf.Name())
			}
		}
	}
	data, _ := json.MarshalIndent(map[string]any{"Replace": overlay}, "", " ")
	if err := os.WriteFile(filepath.Join(*out, "overlay.json"), data, 0o644); err != nil {
		fmt.Fprintln(os.Stderr, "vinstr:", err)
		os.Exit(2)
	}
	keys := make([]string, 0, len(total))
	for k := range total {
		keys = append(keys, k)
	}
	sort.Strings(keys)
	var sb strings.Builder
	for _, k := range keys {
		fmt.Fprintf(&sb, "%s=%d ", k, total[k])
	}
	fmt.Fprintf(os.Stderr, "vinstr: %d files rewritten; %s\n", len(overlay), sb.String())
}
