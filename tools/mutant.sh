#!/bin/sh
# usage: tools/mutant.sh <patch file> <property> [quick|thorough]
# Applies a deliberate property-breaking change to /repo, runs the check (expects exit 1), and reverts the change.
patch="$1"; prop="$2"; tier="${3:-quick}"
if ! git -C /repo diff --quiet; then echo "mutant.sh: /repo has uncommitted changes"; exit 2; fi
git -C /repo apply "$patch" || { echo "mutant.sh: patch does not apply: $patch"; exit 2; }
VERIF_EVIDENCE_DIR=/var/tmp/mutant-replays/evidence VERIF_REPLAY_DIR=/var/tmp/mutant-replays /verif/bin/vcheck "$prop" "$tier" > /tmp/mutant.out 2>&1
rc=$?
git -C /repo checkout -- .
rm -rf /var/tmp/mutant-replays
if [ $rc -eq 1 ]; then echo "DETECTED $(basename $patch) by $prop $tier: $(grep -m1 'signature:' /tmp/mutant.out)"; exit 0; fi
echo "MISSED $(basename $patch) by $prop $tier (rc=$rc): $(tail -1 /tmp/mutant.out | cut -c1-200)"; exit 1
