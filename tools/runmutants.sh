#!/bin/bash
# usage: tools/runmutants.sh [tier] [name-prefix ...]
# Runs every mutant of /verif/mutants (cNN-*.diff -> property CNN) and every seeded change of /verif/seeded
# (CNN-k/patch.diff) against the check of its property; appends one line per run to /verif/mutants/RESULTS.txt.
tier=${1:-quick}; shift
cd /verif
run() { # name patch prop
  if [ $# -gt 3 ]; then :; fi
  out=$(tools/mutant.sh "$2" "$3" $tier 2>&1 | tail -1)
  echo "$(date +%H:%M:%S) $tier $3 $1 :: $out" | cut -c1-400 | tee -a mutants/RESULTS.txt
}
match() { [ ${#filters[@]} -eq 0 ] && return 0; for flt in "${filters[@]}"; do case "$1" in $flt*) return 0;; esac; done; return 1; }
filters=("$@")
for f in mutants/*.diff; do
  n=$(basename $f .diff); match $n || continue
  prop=$(echo ${n%%-*} | tr c C)
  run $n /verif/$f $prop
done
for d in seeded/*/; do
  n=seed-$(basename $d); match $n || continue
  prop=$(basename $d); prop=${prop%%-*}
  run $n /verif/${d}patch.diff $prop
done
