#!/usr/bin/env python3
# usage: mkmutant.py <name> <file> <old> <new> [<file> <old> <new> ...]  -> writes /verif/mutants/<name>.diff
# Works in a scratch worktree (/var/tmp/mutwt) of /repo's HEAD; /repo itself is never modified.
import sys, subprocess, os
WT = '/var/tmp/mutwt'
env = dict(os.environ, GOFLAGS='-mod=mod', GOPROXY='off', GOSUMDB='off', GOTOOLCHAIN='local')
def sh(*a, **k):
    return subprocess.run(a, capture_output=True, text=True, **k)
def worktree():
    if not os.path.isdir(WT):
        r = sh('git', '-C', '/repo', 'worktree', 'add', '--detach', WT, 'HEAD')
        assert r.returncode == 0, r.stderr
    head = sh('git', '-C', '/repo', 'rev-parse', 'HEAD').stdout.strip()
    sh('git', '-C', WT, 'checkout', '-q', '--detach', head)
    sh('git', '-C', WT, 'checkout', '--', '.')
def make(name, edits):
    worktree()
    for path, old, new in edits:
        p = os.path.join(WT, path)
        s = open(p).read()
        assert s.count(old) == 1, "%s: pattern count %d in %s" % (name, s.count(old), path)
        open(p, 'w').write(s.replace(old, new))
    d = sh('git', '-C', WT, 'diff').stdout
    b = sh('go', 'build', './...', cwd=WT, env=env)
    sh('git', '-C', WT, 'checkout', '--', '.')
    if b.returncode != 0:
        print(name, 'DOES NOT BUILD', b.stderr[:400])
        return False
    open('/verif/mutants/%s.diff' % name, 'w').write(d)
    print(name, 'builds')
    return True
if __name__ == '__main__':
    a = sys.argv[2:]
    make(sys.argv[1], [tuple(a[i:i + 3]) for i in range(0, len(a), 3)])
