#!/usr/bin/env python3
# usage: mkmutant.py <name> <file> <old> <new>   -> writes /verif/mutants/<name>.diff (the repo is left unchanged)
import sys, subprocess
name, path, old, new = sys.argv[1:5]
p = '/repo/' + path
s = open(p).read()
assert s.count(old) == 1, "pattern count %d" % s.count(old)
open(p, 'w').write(s.replace(old, new))
d = subprocess.run(['git', '-C', '/repo', 'diff'], capture_output=True, text=True).stdout
subprocess.run(['git', '-C', '/repo', 'checkout', '--', '.'])
open('/verif/mutants/%s.diff' % name, 'w').write(d)
b = subprocess.run('cd /repo && git apply %s && GOFLAGS=-mod=mod GOPROXY=off go build ./... ; rc=$?; git checkout -- . ; exit $rc' % ('/verif/mutants/%s.diff' % name), shell=True)
print(name, 'builds' if b.returncode == 0 else 'DOES NOT BUILD')
