#!/usr/bin/env python3
# Summarises mutants/RESULTS.txt (latest run of every change against every property it was run against) as markdown.
import re, collections, json, glob, os, sys
last = collections.OrderedDict()
for l in open('/verif/mutants/RESULTS.txt'):
    m = re.match(r'(\S+) (\S+) (C\d\d) (\S+) :: (DETECTED|MISSED|SKIPPED)\s*(.*)', l)
    if not m:
        continue
    t, tier, prop, name, res, rest = m.groups()
    sig = ''
    ms = re.search(r'signature: (\S+)', rest)
    if ms:
        sig = ms.group(1)
    last[(name, prop)] = (res, tier, sig)
by = collections.defaultdict(list)
for (name, prop), v in last.items():
    by[name].append((prop,) + v)
rows = []
for name in sorted(by):
    runs = by[name]
    det = [r for r in runs if r[1] == 'DETECTED']
    own = name.split('-')[1] if name.startswith('seed-') else name.split('-')[0].upper()
    if det:
        r = det[-1]
        note = '' if r[0] == own else ' (by the check of %s)' % r[0]
        rows.append((name, 'detected' + note, r[2], r[3][:70]))
    else:
        r = runs[-1]
        rows.append((name, r[1].lower(), r[2], ''))
if '--summary' in sys.argv:
    per = collections.OrderedDict()
    for name, res, tier, sig in rows:
        own = name.split('-')[1] if name.startswith('seed-') else name.split('-')[0].upper()
        kind = 'seeded by sub-agents' if name.startswith('seed-') else ('reverted fix' if '-revert-' in name else 'hand-written')
        d = per.setdefault(own, collections.Counter())
        d[kind + '|n'] += 1
        if res.startswith('detected'):
            d[kind + '|d'] += 1
            if 'by the check of' in res:
                d['other'] += 1
        elif res == 'skipped':
            d[kind + '|s'] += 1
    print('| property | hand-written | reverted fixes | seeded by sub-agents | detected by a neighbouring check |')
    print('|---|---|---|---|---|')
    tot = collections.Counter()
    for own in sorted(per):
        d = per[own]
        cell = lambda k: '%d/%d' % (d[k + '|d'], d[k + '|n']) + (' (%d no longer apply)' % d[k + '|s'] if d[k + '|s'] else '')
        print('| %s | %s | %s | %s | %d |' % (own, cell('hand-written'), cell('reverted fix'), cell('seeded by sub-agents'), d['other']))
        tot.update(d)
    print('| all | %d/%d | %d/%d | %d/%d | %d |' % (tot['hand-written|d'], tot['hand-written|n'], tot['reverted fix|d'], tot['reverted fix|n'], tot['seeded by sub-agents|d'], tot['seeded by sub-agents|n'], tot['other']))
    sys.exit(0)
print('| change | result | tier | first signature |')
print('|---|---|---|---|')
for r in rows:
    print('| %s | %s | %s | `%s` |' % r)
n = len(rows); d = sum(1 for r in rows if r[1].startswith('detected'))
print('\n%d of %d changes detected.' % (d, n))
