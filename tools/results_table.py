#!/usr/bin/env python3
# Summarises mutants/RESULTS.txt (latest run of every change against every property it was run against) as markdown.
import re, collections, json, glob, os
last = collections.OrderedDict()
for l in open('/verif/mutants/RESULTS.txt'):
    m = re.match(r'(\S+) (\S+) (C\d\d) (\S+) :: (DETECTED|MISSED|SKIPPED)\s*(.*)', l)
    if not m:
        continue
    t, tier, prop, name, res, rest = m.groups()
    sig = ''
    ms = re.search(r'signature: (\S+)', rest)
    if ms:
        sig = ms.group(1)
    last[(name, prop)] = (res, tier, sig)
by = collections.defaultdict(list)
for (name, prop), v in last.items():
    by[name].append((prop,) + v)
rows = []
for name in sorted(by):
    runs = by[name]
    det = [r for r in runs if r[1] == 'DETECTED']
    own = name.split('-')[1] if name.startswith('seed-') else name.split('-')[0].upper()
    if det:
        r = det[-1]
        note = '' if r[0] == own else ' (by the check of %s)' % r[0]
        rows.append((name, 'detected' + note, r[2], r[3][:70]))
    else:
        r = runs[-1]
        rows.append((name, r[1].lower(), r[2], ''))
print('| change | result | tier | first signature |')
print('|---|---|---|---|')
for r in rows:
    print('| %s | %s | %s | `%s` |' % r)
n = len(rows); d = sum(1 for r in rows if r[1].startswith('detected'))
print('\n%d of %d changes detected.' % (d, n))
