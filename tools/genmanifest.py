#!/usr/bin/env python3
# Generates /verif/MANIFEST.json from the table below (kept in one place so that it is always valid).
import json, subprocess
hooks_commit = subprocess.run(["git","-C","/repo","log","--format=%H","--grep=verif hooks","-n","5"],capture_output=True,text=True).stdout.split()
claimed = json.load(open("/verif/tools/claims.json"))
props = [json.loads(l) for l in open("/verif/properties.jsonl")]
checks=[]; na=[]
for p in props:
    pid=p["id"]
    if pid in claimed:
        c=claimed[pid]
        checks.append({
            "property_id": pid,
            "quick_cmd": f"bin/vcheck {pid} quick",
            "thorough_cmd": f"bin/vcheck {pid} thorough",
            "evidence_file": f"/verif/evidence/{pid}.json",
            "replay_cmd_template": "bin/vcheck replay {path}",
            "engine": c["engine"],
            "level_claimed": {"category": c["category"], "text": c["text"], "design_ref": c.get("design_ref","DESIGN.md section 4 "+pid)},
            "level_note": c["note"],
            "technique": c["technique"],
        })
    else:
        na.append({"property_id": pid, "reason": "check not built yet in this round of work (the design in DESIGN.md section 4 applies); not claimed until its check exists and passes"})
m={
 "version":1,
 "setup_cmd":"./setup.sh",
 "hooks":{"guard":"verif","enable":"go build -tags verif -overlay <generated overlay.json> (bin/vcheck does this from /repo's working tree on every run)",
          "baseline_off_cmd":"cd /repo && GOFLAGS=-mod=mod GOPROXY=off GOSUMDB=off go test -json -vet=off -count=1 -timeout 25m ./...",
          "source_commits":hooks_commit,"add_only":True},
 "engines":[
   {"name":"E-input","path":"/verif/harness/props","serves_properties":["C01","C02","C03","C08","C15","C16","C17","C20"],"kind_free_text":"exhaustive enumeration of structured finite input spaces against reference decoders/renderers"},
   {"name":"E-seq","path":"/verif/harness/eseq","serves_properties":["C04","C05","C06","C07","C10","C11","C12","C14","C17","C18"],"kind_free_text":"explicit-state breadth-first search whose transition function is the real code, lock-step reference model"},
   {"name":"E-conc","path":"/verif/harness/econc + /verif/shim/vsched","serves_properties":["C09","C13","C14","C19"],"kind_free_text":"stateless DFS over all schedules of the instrumented code up to a preemption bound under a controlled cooperative scheduler with virtual time; race detector kept effective"},
 ],
 "checks":checks,
 "not_applicable":na,
 "notes":"All checks rebuild an instrumented copy of /repo's working tree through go build -overlay (tools/vinstr); see DESIGN.md."
}
json.dump(m,open("/verif/MANIFEST.json","w"),indent=1)
print("claimed",[c["property_id"] for c in checks])
