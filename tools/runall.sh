#!/bin/bash
# run every claimed check of a tier in sequence; print one status line each
export GOFLAGS=-mod=mod GOPROXY=off GOSUMDB=off GOTOOLCHAIN=local
tier=${1:-quick}
cd /verif
rc=0
for p in $(python3 -c "import json;print(' '.join(sorted(json.load(open('tools/claims.json')))))"); do
  s=$(date +%s)
  out=$(bin/vcheck $p $tier 2>&1); e=$?
  echo "$p exit=$e $(( $(date +%s)-s ))s :: $(echo "$out" | tail -1 | cut -c1-220)"
  echo "$out" | grep -E '^(VIOLATION|KNOWN-FINDING)' | cut -c1-200
  [ $e -ne 0 ] && rc=1
done
exit $rc
