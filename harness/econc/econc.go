// Package econc is the stateless depth-first explorer over the scheduling choices offered by vsched:
// every execution runs to completion, alternatives are explored up to a deviation (preemption) bound.
package econc

import (
	"time"

	"github.com/irai/packet/verifshim/vsched"
)

// RunFunc executes one schedule (prefix then default choices) on fresh objects and returns the execution record
// and a canonical observation string (used only to count distinct outcomes).
type RunFunc func(prefix []int) (ex *vsched.Execution, obs string)

// Stats of an exploration.
type Stats struct {
	Executions   int64
	Points       int64
	MaxPoints    int
	PerCost      []int64 // executions by deviation count
	Contended    int64   // executions in which some goroutine found a lock held / channel not ready
	Outcomes     map[string]int64
	Observations map[string]int64
	CapHit       string
	Bound        int
}

// Explorer configuration.
type Explorer struct {
	Bound    int
	Shard    int
	NShards  int
	Deadline time.Time // zero = none
	MaxExecs int64     // 0 = none
	// OnExec is called after every execution; return false to stop the exploration.
	OnExec func(choices []int, cost int, ex *vsched.Execution, obs string) bool
	Stats  Stats
}

// altCost is the number of deviations charged for taking alternative j at point p: every departure from the default
// schedule costs one, whether it preempts a runnable goroutine, fires the clock early, picks another ready select
// case, or picks another goroutine when the running one blocked (charging these "free" switches too keeps the search
// polynomial in the number of blocking points).
func altCost(p *vsched.Point, j int) int {
	if j == 0 {
		return 0
	}
	return 1
}

type node struct {
	prefix []int
	cost   int
}

// Explore enumerates every schedule within the bound (sharded on the children of the root execution).
func (e *Explorer) Explore(run RunFunc) {
	e.Stats.Outcomes = map[string]int64{}
	e.Stats.Observations = map[string]int64{}
	e.Stats.PerCost = make([]int64, e.Bound+1)
	e.Stats.Bound = e.Bound
	stack := []node{{nil, 0}}
	root := true
	childIdx := 0
	for len(stack) > 0 {
		n := stack[len(stack)-1]
		stack = stack[:len(stack)-1]
		if !e.Deadline.IsZero() && time.Now().After(e.Deadline) {
			e.Stats.CapHit = "time budget"
			return
		}
		if e.MaxExecs > 0 && e.Stats.Executions >= e.MaxExecs {
			e.Stats.CapHit = "execution cap"
			return
		}
		ex, obs := run(n.prefix)
		choices := make([]int, len(ex.Points))
		for i := range ex.Points {
			choices[i] = ex.Points[i].Chosen
		}
		count := !root || e.Shard == 0
		if count {
			e.Stats.Executions++
			e.Stats.Points += int64(len(ex.Points))
			if len(ex.Points) > e.Stats.MaxPoints {
				e.Stats.MaxPoints = len(ex.Points)
			}
			e.Stats.PerCost[n.cost]++
			if ex.Contention > 0 {
				e.Stats.Contended++
			}
			e.Stats.Outcomes[ex.Outcome.String()]++
			e.Stats.Observations[obs]++
			if e.OnExec != nil && !e.OnExec(choices, n.cost, ex, obs) {
				e.Stats.CapHit = "stopped by oracle"
				return
			}
		}
		if ex.Outcome == vsched.Diverged || ex.Outcome == vsched.StepLimit {
			continue // (a spinning execution has tens of thousands of points: its deviations are not worth exploring)
		}
		// children: deviate at every point after the prefix
		var kids []node
		for i := len(n.prefix); i < len(ex.Points); i++ {
			p := &ex.Points[i]
			for j := 1; j < len(p.Alts); j++ {
				c := n.cost + altCost(p, j)
				if c > e.Bound {
					continue
				}
				if root {
					mine := e.NShards <= 1 || childIdx%e.NShards == e.Shard
					childIdx++
					if !mine {
						continue
					}
				}
				np := make([]int, i+1)
				copy(np, choices[:i])
				np[i] = j
				kids = append(kids, node{np, c})
			}
		}
		// push in reverse so that the earliest deviation is explored first
		for i := len(kids) - 1; i >= 0; i-- {
			stack = append(stack, kids[i])
		}
		root = false
	}
}
