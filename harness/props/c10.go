package props

import (
	"encoding/hex"
	"fmt"
	"net/netip"
	"strings"

	"harness/core"
	"harness/env"
	"harness/refnet"

	dns "github.com/irai/packet/handlers/dns_naming"
	"github.com/irai/packet/verifshim/vfuel"
	"golang.org/x/net/dns/dnsmessage"
)

// C10 beyond the session histories: the handlers that retain state decoded from packets are run differentially as
// well. differential makes c14Learn (router learning from router advertisements) and c17DNS (DNS tables) execute every
// case twice - the receive buffer scribbled after the call returned, and left untouched - and report a difference of
// the retained state as an aliasing violation instead of comparing with the reference decode.
var differential bool

// scribbleOff disables the scribbling of the receive buffer in c14Check and checkDNS (second run of a differential pair).
var scribbleOff bool

// c10RA returns the aliasing verdict for one router advertisement ("" if the learned router does not depend on the
// later content of the receive buffer).
func c10RA(st *c14State, frame []byte) string {
	scribbleOff = false
	scribbled := c14Check(st, frame)
	scribbleOff = true
	untouched := c14Check(st, frame)
	scribbleOff = false
	if scribbled != untouched {
		return fmt.Sprintf("router learned from a scribbled receive buffer differs from the one learned from an untouched buffer: {%s} vs {%s}", scribbled, untouched)
	}
	return ""
}

// c10DNS is the same for one DNS response.
func c10DNS(e *c17Env, payload []byte, qname, want string) string {
	scribbleOff = false
	g1, f1 := checkDNS(e, payload, qname, want)
	scribbleOff = true
	g2, f2 := checkDNS(e, payload, qname, want)
	scribbleOff = false
	if g1 != g2 || f1 != f2 {
		return fmt.Sprintf("DNS table entry after the receive buffer was scribbled {%s %s} differs from the entry with an untouched buffer {%s %s}", g1, f1, g2, f2)
	}
	return ""
}

// c10MDNS processes one mDNS response of a host-less sender and renders the entries the handler returned, reading them
// after the receive buffer was scribbled (or not).
func c10MDNS(e *c17Env, payload []byte, scribbleIt bool) (out string) {
	defer func() {
		if r := recover(); r != nil {
			out = fmt.Sprintf("panic: %v", r)
			e.s = nil
		}
	}()
	vfuel.Set(200_000)
	h := dns.VerifNew(e.session())
	src := netip.MustParseAddr("169.254.7.7") // self assigned address outside the home LAN: no host entry
	raw := refnet.Eth(env.McastMAC, env.MAC3, 0x0800, refnet.IP4(src, netip.MustParseAddr("224.0.0.251"), 17, refnet.UDP(5353, 5353, payload), refnet.IP4Opt{}))
	buf := append([]byte(nil), raw...)
	frame, err := e.session().Parse(buf)
	if err != nil {
		return "parse: " + err.Error()
	}
	v4, v6, err := h.ProcessMDNS(frame)
	if scribbleIt {
		scribble(buf)
	}
	if err != nil {
		return "error"
	}
	var parts []string
	for _, x := range v4 {
		parts = append(parts, fmt.Sprintf("4:%s=%v@%s", x.NameEntry.Name, x.Addr.IP, x.Addr.MAC))
	}
	for _, x := range v6 {
		parts = append(parts, fmt.Sprintf("6:%s=%v@%s", x.NameEntry.Name, x.Addr.IP, x.Addr.MAC))
	}
	return strings.Join(parts, " ")
}

func c10Run(c *core.Ctx, args []string) {
	c.Res.Level = "model_checking"
	c.Res.Rule = "differential execution of every explored history: (1) the session histories of C04 (depth and seeds as C04) with one shared receive buffer that is scribbled after every call (quick: pattern 0xa5; thorough: 0x00 and 0xa5) against private immutable buffers - notifications, emitted frames and table snapshots must be identical step by step; (2) the DHCP histories of C11/C12 the same way - replies and lease table snapshots; (3) every router advertisement of the C14 router-learning enumeration and (4) every DNS response of the C17 enumeration, each processed twice (buffer scribbled after ProcessPacket/ProcessDNS returned, and untouched) - the learned router / DNS entry must not differ; the same for pairs of advertisements of one router and for mDNS responses of a sender the session does not track. distinct = distinct states + distinct frames"
	c.Res.Assumptions = sessAssumptions()
	switch c.Job {
	case "dhcp":
		dhcpExplore(c, "alias")
	case "ra":
		differential = true
		c14LearnSweep(c)
		differential = false
		c.Count("transitions", c.Res.Counters["evaluations"])
	case "dns":
		differential = true
		c17DNSSweep(c, &c17Env{}, func() func() bool { unit := 0; return func() bool { unit++; return c.Mine(unit - 1) } }())
		differential = false
		for _, host := range []string{"tv", "office-pc"} {
			for sec := 0; sec < 3; sec++ {
				rrs := []c17RR{{"txt", "x._airplay._tcp.local", "model=AppleTV"}, {"a", host + ".local", "169.254.7.7"}, {"aaaa", host + ".local", "fe80::77"}}
				payload, err := buildDNS("", dnsmessage.TypeA, rrs, []int{0, sec, sec}, true, true)
				if err != nil {
					continue
				}
				c.Count("evaluations", 1)
				e := &c17Env{}
				a, b := c10MDNS(e, payload, true), c10MDNS(e, payload, false)
				if a != b {
					c.Violate("alias|mdns-entries", fmt.Sprintf("mDNS response of a sender without host entry (host %s, section %d): entries read after the receive buffer was scribbled {%s} differ from {%s}", host, sec, a, b), c17Replay{Kind: "mdns10", Hex: hex.EncodeToString(payload)})
				}
			}
		}
		c.Count("transitions", c.Res.Counters["evaluations"])
	default:
		sessExplore(c, "alias")
	}
}

func init() {
	Registry["C10"] = &Driver{
		Plan: func(tier string) []core.Job {
			jobs := shardJobs("sess", 16, false, 1700)
			jobs = append(jobs, shardJobs("dhcp", 6, false, 1700)...)
			jobs = append(jobs, shardJobs("ra", 2, false, 900)...)
			return append(jobs, shardJobs("dns", 1, false, 900)...)
		},
		Run: c10Run,
		Replay: func(data []byte) string {
			var k struct {
				Kind  string `json:"kind"`
				Frame string `json:"frame"`
				Pre   string `json:"pre"`
				Hex   string `json:"hex"`
				QName string `json:"qname"`
				Want  string `json:"want"`
			}
			jsonUnmarshal(data, &k)
			differential = true // the differential runs compare the complete retained state
			defer func() { differential = false }()
			switch k.Kind {
			case "dhcp":
				return dhcpReplayer(data)
			case "ra2":
				f, _ := hex.DecodeString(k.Frame)
				p, _ := hex.DecodeString(k.Pre)
				scribbleOff = false
				a := c14CheckSeq(&c14State{}, [][]byte{p}, f)
				scribbleOff = true
				b := c14CheckSeq(&c14State{}, [][]byte{p}, f)
				scribbleOff = false
				if a != b {
					return "alias|router-learning: second advertisement"
				}
				return ""
			case "ra":
				f, _ := hex.DecodeString(k.Frame)
				if v := c10RA(&c14State{}, f); v != "" {
					return "alias|router-learning: " + v
				}
				return ""
			case "mdns10":
				b, _ := hex.DecodeString(k.Hex)
				e := &c17Env{}
				if a, bb := c10MDNS(e, b, true), c10MDNS(e, b, false); a != bb {
					return "alias|mdns-entries"
				}
				return ""
			case "dns":
				b, _ := hex.DecodeString(k.Hex)
				if v := c10DNS(&c17Env{}, b, k.QName, k.Want); v != "" {
					return "alias|dns-table: " + v
				}
				return ""
			}
			return sessReplayer(data)
		},
	}
}
