package props

import (
	"encoding/hex"
	"fmt"

	"harness/core"
)

// C10 beyond the session histories: the handlers that retain state decoded from packets are run differentially as
// well. differential makes c14Learn (router learning from router advertisements) and c17DNS (DNS tables) execute every
// case twice - the receive buffer scribbled after the call returned, and left untouched - and report a difference of
// the retained state as an aliasing violation instead of comparing with the reference decode.
var differential bool

// scribbleOff disables the scribbling of the receive buffer in c14Check and checkDNS (second run of a differential pair).
var scribbleOff bool

// c10RA returns the aliasing verdict for one router advertisement ("" if the learned router does not depend on the
// later content of the receive buffer).
func c10RA(st *c14State, frame []byte) string {
	scribbleOff = false
	scribbled := c14Check(st, frame)
	scribbleOff = true
	untouched := c14Check(st, frame)
	scribbleOff = false
	if scribbled != untouched {
		return fmt.Sprintf("router learned from a scribbled receive buffer differs from the one learned from an untouched buffer: {%s} vs {%s}", scribbled, untouched)
	}
	return ""
}

// c10DNS is the same for one DNS response.
func c10DNS(e *c17Env, payload []byte, qname, want string) string {
	scribbleOff = false
	g1, f1 := checkDNS(e, payload, qname, want)
	scribbleOff = true
	g2, f2 := checkDNS(e, payload, qname, want)
	scribbleOff = false
	if g1 != g2 || f1 != f2 {
		return fmt.Sprintf("DNS table entry after the receive buffer was scribbled {%s %s} differs from the entry with an untouched buffer {%s %s}", g1, f1, g2, f2)
	}
	return ""
}

func c10Run(c *core.Ctx, args []string) {
	c.Res.Level = "model_checking"
	c.Res.Rule = "differential execution of every explored history: (1) the session histories of C04 (depth and seeds as C04) with one shared receive buffer that is scribbled after every call (quick: pattern 0xa5; thorough: 0x00 and 0xa5) against private immutable buffers - notifications, emitted frames and table snapshots must be identical step by step; (2) the DHCP histories of C11/C12 the same way - replies and lease table snapshots; (3) every router advertisement of the C14 router-learning enumeration and (4) every DNS response of the C17 enumeration, each processed twice (buffer scribbled after ProcessPacket/ProcessDNS returned, and untouched) - the learned router / DNS entry must not differ. distinct = distinct states + distinct frames"
	c.Res.Assumptions = sessAssumptions()
	switch c.Job {
	case "dhcp":
		dhcpExplore(c, "alias")
	case "ra":
		differential = true
		c14LearnSweep(c)
		differential = false
		c.Count("transitions", c.Res.Counters["evaluations"])
	case "dns":
		differential = true
		c17DNSSweep(c, &c17Env{}, func() func() bool { unit := 0; return func() bool { unit++; return c.Mine(unit - 1) } }())
		differential = false
		c.Count("transitions", c.Res.Counters["evaluations"])
	default:
		sessExplore(c, "alias")
	}
}

func init() {
	Registry["C10"] = &Driver{
		Plan: func(tier string) []core.Job {
			jobs := shardJobs("sess", 16, false, 1700)
			jobs = append(jobs, shardJobs("dhcp", 6, false, 1700)...)
			jobs = append(jobs, shardJobs("ra", 2, false, 900)...)
			return append(jobs, shardJobs("dns", 1, false, 900)...)
		},
		Run: c10Run,
		Replay: func(data []byte) string {
			var k struct {
				Kind  string `json:"kind"`
				Frame string `json:"frame"`
				Hex   string `json:"hex"`
				QName string `json:"qname"`
				Want  string `json:"want"`
			}
			jsonUnmarshal(data, &k)
			switch k.Kind {
			case "dhcp":
				return dhcpReplayer(data)
			case "ra":
				f, _ := hex.DecodeString(k.Frame)
				if v := c10RA(&c14State{}, f); v != "" {
					return "alias|router-learning: " + v
				}
				return ""
			case "dns":
				b, _ := hex.DecodeString(k.Hex)
				if v := c10DNS(&c17Env{}, b, k.QName, k.Want); v != "" {
					return "alias|dns-table: " + v
				}
				return ""
			}
			return sessReplayer(data)
		},
	}
}
