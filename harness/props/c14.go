package props

import (
	"bytes"
	"encoding/hex"
	"errors"
	"fmt"
	"net"
	"net/netip"
	"strings"
	"time"

	"harness/core"
	"harness/env"
	"harness/refnet"

	"github.com/irai/packet"
	icmp "github.com/irai/packet/handlers/icmp_spoofer"
	"github.com/irai/packet/verifshim/vsched"
	"github.com/irai/packet/verifshim/vtime"
)

// C14: ICMPv6 spoofing is confined to hunted hosts; routers are learned exactly.

var (
	c14Tgt = []packet.Addr{
		{MAC: env.MAC1, IP: lla1},         // link local target
		{MAC: env.MAC3, IP: netip.Addr{}}, // no address
		{MAC: env.MAC2, IP: gua1},         // global address: ignored
		{MAC: env.MAC2, IP: ip4b},         // IPv4: rejected
	}
	c14API  = []string{"StartHunt(lla)", "StartHunt(noaddr)", "StartHunt(gua)", "StartHunt(ip4)", "StopHunt(lla)", "StopHunt(noaddr)", "Close"}
	c14Pkt  = []string{"RA(r1)", "RA(r2)"}
	router2 = netip.MustParseAddr("fe80::3")
	rtr2MAC = []byte{0x02, 0x00, 0x00, 0x00, 0x00, 0x03}
)

const c14Cycle = 2 * time.Second

func c14Scenario(api []int, pkts []int) *concScenario {
	var an, pn []string
	for _, a := range api {
		an = append(an, c14API[a])
	}
	for _, p := range pkts {
		pn = append(pn, c14Pkt[p])
	}
	name := "na[" + strings.Join(an, ",") + "|" + strings.Join(pn, ",") + "]"
	return &concScenario{name: name, maxClock: 16,
		body: func(x *concExec) {
			concReset()
			s, conn := concSession()
			x.data["session"] = s
			log := &huntLog{}
			x.data["log"] = log
			h, err := icmp.New6(s)
			if err != nil {
				x.fail("setup", err.Error())
				return
			}
			x.data["start"] = vsched.NowNanos()
			threads(
				func() {
					for _, op := range api {
						before := h.VerifHuntLen()
						log.add(huntEvent{kind: "api-call", op: op, t: vsched.NowNanos(), seq: conn.Len()})
						switch {
						case op <= 3:
							_, err := h.StartHunt(c14Tgt[op])
							if op == 3 && !errors.Is(err, packet.ErrInvalidIP) {
								x.fail("ipv4-target", fmt.Sprintf("StartHunt with an IPv4 address returned %v, want ErrInvalidIP", err))
							}
							if op >= 2 && h.VerifHuntLen() != before {
								x.fail("non-lla-target", fmt.Sprintf("%s changed the hunt list", c14API[op]))
							}
						case op <= 5:
							h.StopHunt(c14Tgt[op-4])
						default:
							h.Close()
						}
						log.add(huntEvent{kind: "api-ret", op: op, t: vsched.NowNanos(), seq: conn.Len()})
					}
				},
				func() {
					for _, p := range pkts {
						var ra []byte
						if p == 0 {
							ra = raFrame(env.RouterMAC, env.RouterLLA, 0x40, 1800, refnet.NDPOption(1, env.RouterMAC))
						} else {
							ra = raFrame(rtr2MAC, router2, 0x00, 600, refnet.NDPOption(1, rtr2MAC))
						}
						rx := append([]byte(nil), ra...) // the receive buffer: overwritten once the packet loop is done with it
						f, err := s.Parse(rx)
						if err != nil {
							x.fail("setup", "RA rejected by Parse: "+err.Error())
							return
						}
						h.ProcessPacket(f)
						s.Notify(f)
						scribble(rx)
						log.add(huntEvent{kind: "deliver", op: p, t: vsched.NowNanos(), seq: conn.Len()})
					}
				},
			)
			vtime.Sleep(2*c14Cycle + time.Second)
			log.add(huntEvent{kind: "api-call", op: 6, t: vsched.NowNanos(), seq: conn.Len()})
			h.Close()
			log.add(huntEvent{kind: "api-ret", op: 6, t: vsched.NowNanos(), seq: conn.Len()})
			x.data["finalclose"] = conn.Len()
			x.data["finalcloseT"] = vsched.NowNanos()
			vtime.Sleep(2*c14Cycle + time.Second)
			x.data["completed"] = true
			x.data["routers"] = len(h.LANRouters)
			s.Close()
			vsched.WaitIdle()
		},
		post: func(x *concExec) { c14Monitor(x) },
	}
}

func c14Monitor(x *concExec) {
	s, _ := x.data["session"].(*packet.Session)
	log, _ := x.data["log"].(*huntLog)
	if s == nil || log == nil {
		return
	}
	conn := s.Conn.(*env.Conn)
	timely := x.data["earlyClock"].(int) == 0
	completed, _ := x.data["completed"].(bool)
	start := x.data["start"].(int64)
	var dbg strings.Builder
	for _, e := range log.ev {
		fmt.Fprintf(&dbg, "  log %s op=%d t=%v seq=%d\n", e.kind, e.op, time.Duration(e.t-start), e.seq)
	}
	// maybe-hunted intervals for the two huntable targets (index 0: lla, 1: noaddr)
	maybeHunted := func(k int, idx int) bool {
		in := false
		for _, e := range log.ev {
			if e.kind == "api-call" && e.op == k && e.seq <= idx {
				in = true
			}
			if e.kind == "api-ret" && e.op == k+4 && e.seq <= idx && in {
				in = false
			}
		}
		return in
	}
	startsOf := func(k int) int {
		n := 0
		for _, e := range log.ev {
			if e.kind == "api-call" && e.op == k {
				n++
			}
		}
		return n
	}
	// routers learned so far at frame index idx: an RA was delivered (processing finished) before
	learned := func(ip netip.Addr, idx int) bool {
		for _, e := range log.ev {
			if e.kind == "deliver" && e.seq <= idx {
				if (e.op == 0 && ip == env.RouterLLA) || (e.op == 1 && ip == router2) {
					return true
				}
			}
		}
		// the RA may have been processed (router learned) just before its "deliver" entry was logged: accept frames
		// that were emitted after the RA started processing, i.e. any RA of that router in the scenario
		for _, e := range log.ev {
			if e.kind == "deliver" && ((e.op == 0 && ip == env.RouterLLA) || (e.op == 1 && ip == router2)) {
				return true
			}
		}
		return false
	}
	var obs []string
	afterStop := [2]int{}
	lastStopSeq := [2]int{-1, -1}
	for k := 0; k < 2; k++ {
		seen := false
		for _, e := range log.ev {
			if e.kind == "api-call" && e.op == k {
				seen = true
				lastStopSeq[k] = -1
			}
			if e.kind == "api-ret" && e.op == k+4 && seen {
				lastStopSeq[k] = e.seq
			}
		}
	}
	firstClose := -1
	var firstCloseT int64
	for _, e := range log.ev {
		if e.kind == "api-ret" && e.op == 6 && firstClose < 0 {
			firstClose, firstCloseT = e.seq, e.t
		}
	}
	batchAfterClose := 0
	for i, f := range conn.Frames {
		info := refnet.DecodeSent(f.Data, env.HostMAC)
		fmt.Fprintf(&dbg, "  frame idx=%d t=%v kind=%s dst=%x dstip=%v target=%v\n", i, time.Duration(f.Time-start), info.Kind, info.DstMAC[4:], info.DstIP, info.Target)
		for _, p := range info.Problems {
			if strings.Contains(p, "ipv6 multicast destination") {
				continue // address-less targets are reached by unicast MAC + all-nodes address on purpose (see C07)
			}
			x.fail("frame", fmt.Sprintf("emitted %s frame malformed: %s", info.Kind, p))
		}
		if info.Kind != "na" {
			continue
		}
		forged := bytes.Equal(info.OptTLLA, env.HostMAC) && (info.Target == env.RouterLLA || info.Target == router2)
		if !forged {
			obs = append(obs, "na-other")
			continue
		}
		obs = append(obs, fmt.Sprintf("forged(%v)->%x", info.Target, info.DstMAC[5]))
		if info.NAFlags&0x20 == 0 {
			x.fail("override", "forged neighbour advertisement without the override flag")
		}
		if info.HopLimit != 255 {
			x.fail("hoplimit", fmt.Sprintf("forged neighbour advertisement with hop limit %d", info.HopLimit))
		}
		if !learned(info.Target, i) {
			x.fail("unlearned-router", fmt.Sprintf("forged advertisement for %v before any router advertisement of that router was received", info.Target))
		}
		k := -1
		for j := 0; j < 2; j++ {
			if bytes.Equal(info.DstMAC[:], c14Tgt[j].MAC) {
				k = j
			}
		}
		if k < 0 || startsOf(k) == 0 {
			x.fail("confinement", fmt.Sprintf("forged neighbour advertisement sent to %x which was never hunted", info.DstMAC))
			continue
		}
		if lastStopSeq[k] >= 0 && i >= lastStopSeq[k] {
			afterStop[k]++
		}
		_ = maybeHunted
		if firstClose >= 0 && i >= firstClose && timely && f.Time > firstCloseT+int64(c14Cycle+time.Second) {
			batchAfterClose++
		}
	}
	x.data["debug"] = dbg.String()
	nRouters := 0
	for _, e := range log.ev {
		if e.kind == "deliver" {
			nRouters = 2
		}
	}
	for k := 0; k < 2; k++ {
		// after StopHunt returned each loop may still emit the batch it had already decided to send (one advertisement
		// per learned router)
		if allowed := startsOf(k) * nRouters; afterStop[k] > allowed {
			x.fail("undo", fmt.Sprintf("%d forged advertisements reached target %d after StopHunt returned (at most %d can be in flight)", afterStop[k], k, allowed))
		}
	}
	if batchAfterClose > 0 && completed {
		x.fail("close", fmt.Sprintf("%d forged advertisements sent more than one cycle after Close", batchAfterClose))
	}
	// idempotent per MAC: repeated StartHunt of one target runs one loop: in a timely execution with a learned router
	// at most one advertisement per router per cycle
	if timely && completed {
		for k := 0; k < 2; k++ {
			if startsOf(k) >= 2 && lastStopSeq[k] < 0 {
				stopped := false
				for _, e := range log.ev {
					if e.kind == "api-call" && e.op == k+4 {
						stopped = true
					}
				}
				if stopped {
					continue
				}
				perTime := map[int64]int{}
				for _, f := range conn.Frames {
					info := refnet.DecodeSent(f.Data, env.HostMAC)
					if info.Kind == "na" && bytes.Equal(info.DstMAC[:], c14Tgt[k].MAC) && info.Target == env.RouterLLA {
						perTime[f.Time]++
					}
				}
				for t, n := range perTime {
					if n > 2 { // one from the loop cycle plus one from the wake-up by a router advertisement
						x.fail("idempotence", fmt.Sprintf("%d forged advertisements for one router reached target %d at the same instant %v: more than one loop is running", n, k, time.Duration(t-start)))
					}
				}
			}
		}
	}
	x.obs = append(x.obs, strings.Join(obs, " "))
}

func c14Histories(maxLen int) [][]int {
	out := [][]int{{}}
	var rec func(cur []int)
	rec = func(cur []int) {
		if len(cur) > 0 {
			out = append(out, append([]int(nil), cur...))
		}
		if len(cur) == maxLen {
			return
		}
		for op := range c14API {
			rec(append(cur, op))
		}
	}
	rec(nil)
	return out
}

func c14Scenarios(apiLen int) []*concScenario {
	var l []*concScenario
	pk := [][]int{{}, {0}, {0, 0}, {0, 1}, {1, 0, 0, 0, 0}}
	for _, a := range c14Histories(apiLen) {
		for _, p := range pk {
			l = append(l, c14Scenario(a, p))
		}
	}
	return l
}

// ---- router learning (input enumeration against the reference decoder) ----

type raOpt struct {
	name string
	raw  []byte
	// expectations
	prefix *refPrefix
	mtu    uint32
	rdnss  []netip.Addr
	rdLife uint32
	dnssl  []string
	slla   []byte
	route  *refPrefix
}

type refPrefix struct {
	length    byte
	flags     byte
	valid     uint32
	preferred uint32
	addr      [16]byte
	pref      byte
	lifetime  uint32
}

// c14DNSSL builds a DNS search list option (RFC 8106): 2 reserved bytes, lifetime, names, zero padding to 8 bytes.
func c14DNSSL(life uint32, names ...string) []byte {
	v := make([]byte, 6)
	v[2], v[3], v[4], v[5] = byte(life>>24), byte(life>>16), byte(life>>8), byte(life)
	for _, n := range names {
		v = append(v, refnet.DNSName(n)...)
	}
	return refnet.NDPOption(31, v)
}

func c14Options() []raOpt {
	p16 := func(s string) [16]byte { return netip.MustParseAddr(s).As16() }
	prefixOpt := func(l byte, flags byte, valid, pref uint32, a [16]byte) []byte {
		v := make([]byte, 30)
		v[0], v[1] = l, flags
		v[2], v[3], v[4], v[5] = byte(valid>>24), byte(valid>>16), byte(valid>>8), byte(valid)
		v[6], v[7], v[8], v[9] = byte(pref>>24), byte(pref>>16), byte(pref>>8), byte(pref)
		copy(v[14:], a[:])
		return refnet.NDPOption(3, v)
	}
	rdnss := func(life uint32, servers ...netip.Addr) []byte {
		v := make([]byte, 6)
		v[2], v[3], v[4], v[5] = byte(life>>24), byte(life>>16), byte(life>>8), byte(life)
		for _, s := range servers {
			a := s.As16()
			v = append(v, a[:]...)
		}
		return refnet.NDPOption(25, v)
	}
	dnssl := c14DNSSL
	route := func(l byte, pref byte, life uint32, a [16]byte) []byte {
		n := 0
		if l > 0 {
			n = 8
		}
		if l > 64 {
			n = 16
		}
		v := make([]byte, 6+n)
		v[0], v[1] = l, pref<<3
		v[2], v[3], v[4], v[5] = byte(life>>24), byte(life>>16), byte(life>>8), byte(life)
		copy(v[6:], a[:n])
		return refnet.NDPOption(24, v)
	}
	mtu := func(m uint32) []byte {
		return refnet.NDPOption(5, []byte{0, 0, byte(m >> 24), byte(m >> 16), byte(m >> 8), byte(m)})
	}
	d1, d2 := netip.MustParseAddr("2001:4860:4860::8888"), netip.MustParseAddr("2606:4700:4700::1111")
	a64 := p16("2001:db8:1:2::")
	a128 := p16("2001:db8::1")
	return []raOpt{
		{name: "prefix/64", raw: prefixOpt(64, 0xc0, 7200, 1800, a64), prefix: &refPrefix{length: 64, flags: 0xc0, valid: 7200, preferred: 1800, addr: a64}},
		{name: "prefix/0", raw: prefixOpt(0, 0x80, 0xffffffff, 0, p16("::")), prefix: &refPrefix{length: 0, flags: 0x80, valid: 0xffffffff, addr: p16("::")}},
		{name: "prefix/128", raw: prefixOpt(128, 0x40, 1, 1, a128), prefix: &refPrefix{length: 128, flags: 0x40, valid: 1, preferred: 1, addr: a128}},
		{name: "mtu1500", raw: mtu(1500), mtu: 1500},
		{name: "mtu1280", raw: mtu(1280), mtu: 1280},
		{name: "rdnss1", raw: rdnss(600, d1), rdnss: []netip.Addr{d1}, rdLife: 600},
		{name: "rdnss2", raw: rdnss(0xffffffff, d1, d2), rdnss: []netip.Addr{d1, d2}, rdLife: 0xffffffff},
		{name: "dnssl", raw: dnssl(1200, "example.com", "lan"), dnssl: []string{"example.com", "lan"}},
		{name: "route/0", raw: route(0, 1, 900, p16("::")), route: &refPrefix{length: 0, pref: 1, lifetime: 900}},
		{name: "route/64", raw: route(64, 3, 1800, a64), route: &refPrefix{length: 64, pref: 3, lifetime: 1800, addr: a64}},
		{name: "route/128", raw: route(128, 0, 60, a128), route: &refPrefix{length: 128, pref: 0, lifetime: 60, addr: a128}},
		// prefix lengths that are not a multiple of 8: the partial byte belongs to the prefix
		{name: "route/60", raw: route(60, 1, 300, p16("2001:db8:1:f0::")), route: &refPrefix{length: 60, pref: 1, lifetime: 300, addr: p16("2001:db8:1:f0::")}},
		{name: "route/12", raw: route(12, 1, 300, p16("2ff0::")), route: &refPrefix{length: 12, pref: 1, lifetime: 300, addr: p16("2ff0::")}},
		{name: "slla", raw: refnet.NDPOption(1, []byte{0x02, 0xaa, 0xbb, 0xcc, 0xdd, 0x01}), slla: []byte{0x02, 0xaa, 0xbb, 0xcc, 0xdd, 0x01}},
		{name: "tlla", raw: refnet.NDPOption(2, []byte{0x02, 0xaa, 0xbb, 0xcc, 0xdd, 0x02})},
		{name: "unknown14", raw: refnet.NDPOption(14, []byte{1, 2, 3, 4, 5, 6})},
	}
}

type c14Replay struct {
	Kind  string `json:"kind"`
	Frame string `json:"frame"`
	Pre   string `json:"pre,omitempty"` // ra2: the advertisement delivered before Frame
}

type c14State struct{ s *packet.Session }

// c14Learn delivers one RA to a fresh handler and compares the learned router with the reference decode.
func c14Learn(c *core.Ctx, st *c14State, opts []raOpt, flags byte, lifetime uint16, hop byte, reach, retrans uint32) {
	c.Count("evaluations", 1)
	var raw []byte
	var names []string
	for _, o := range opts {
		raw = append(raw, o.raw...)
		names = append(names, o.name)
	}
	body := refnet.RA(hop, flags, lifetime, reach, retrans, raw)
	frame := refnet.Eth([]byte{0x33, 0x33, 0, 0, 0, 1}, env.RouterMAC, 0x86dd, refnet.IP6(env.RouterLLA, mc6, 58, 255, refnet.ICMP6(env.RouterLLA, mc6, 134, 0, body), -1))
	rp := c14Replay{Kind: "ra", Frame: hex.EncodeToString(frame)}
	class := strings.Join(names, "+")
	if differential { // C10: the learned router must not depend on what happens to the receive buffer afterwards
		if v := c10RA(st, frame); v != "" {
			c.Violate("alias|router-learning", fmt.Sprintf("RA options [%s] flags=%#02x lifetime=%d: %s", class, flags, lifetime, v), rp)
		}
		c.Distinct(frame)
		return
	}
	if what := c14Check(st, frame); what != "" {
		sig := "router-learning|" + firstWords(what, 2)
		c.Violate(sig, fmt.Sprintf("RA options [%s] flags=%#02x lifetime=%d: %s", class, flags, lifetime, what), rp)
	}
	c.Distinct(frame)
}

// c14LearnPair delivers two advertisements of one router (the second one from ethernet source srcMAC) to one handler.
func c14LearnPair(c *core.Ctx, st *c14State, first, second []raOpt, srcMAC []byte) {
	c.Count("evaluations", 1)
	build := func(opts []raOpt, src []byte, flags byte, lifetime uint16) ([]byte, string) {
		var raw []byte
		var names []string
		for _, o := range opts {
			raw = append(raw, o.raw...)
			names = append(names, o.name)
		}
		body := refnet.RA(64, flags, lifetime, 0, 0, raw)
		return refnet.Eth([]byte{0x33, 0x33, 0, 0, 0, 1}, src, 0x86dd, refnet.IP6(env.RouterLLA, mc6, 58, 255, refnet.ICMP6(env.RouterLLA, mc6, 134, 0, body), -1)), strings.Join(names, "+")
	}
	f1, n1 := build(first, env.RouterMAC, 0xc0, 1800)
	f2, n2 := build(second, srcMAC, 0x40, 600)
	rp := c14Replay{Kind: "ra2", Frame: hex.EncodeToString(f2), Pre: hex.EncodeToString(f1)}
	if differential {
		scribbleOff = false
		a := c14CheckSeq(st, [][]byte{f1}, f2)
		scribbleOff = true
		b := c14CheckSeq(st, [][]byte{f1}, f2)
		scribbleOff = false
		if a != b {
			c.Violate("alias|router-learning", fmt.Sprintf("RA [%s] then RA [%s] from %x: the router learned with scribbled receive buffers differs from the one learned with untouched buffers: {%s} vs {%s}", n1, n2, srcMAC, a, b), rp)
		}
		c.Distinct(append(append([]byte(nil), f1...), f2...))
		return
	}
	if what := c14CheckSeq(st, [][]byte{f1}, f2); what != "" {
		c.Violate("router-learning|second-ra-"+firstWords(what, 2), fmt.Sprintf("RA [%s] then RA [%s] from ethernet source %x: %s", n1, n2, srcMAC, what), rp)
	}
	c.Distinct(append(append([]byte(nil), f1...), f2...))
}

// c14Check returns a description of the first mismatch ("" if the learned router equals the reference decode).
func c14Check(st *c14State, frame []byte) (what string) { return c14CheckSeq(st, nil, frame) }

// c14CheckSeq delivers the advertisements pre (each one examined by the handler) and then frame, and compares the
// learned router with the reference decode of frame: the table records what the LAST advertisement said.
func c14CheckSeq(st *c14State, pre [][]byte, frame []byte) (what string) {
	defer func() {
		if e := recover(); e != nil {
			what = fmt.Sprintf("panic: %v @%s", e, panicSite())
			st.s = nil
		}
	}()
	if st.s == nil {
		st.s, _ = env.NewSession(env.DefaultNIC(), packet.Config{})
	}
	icmp.VerifReset()
	h, _ := icmp.New6(st.s)
	for _, pf := range pre {
		pbuf := append([]byte(nil), pf...)
		if f, err := st.s.Parse(pbuf); err == nil {
			h.ProcessPacket(f)
		}
		if !scribbleOff {
			scribble(pbuf)
		}
		icmp.VerifReset() // the handler examines one advertisement in four: make it examine the next one too
	}
	buf := append([]byte(nil), frame...)
	f, err := st.s.Parse(buf)
	if err != nil {
		return "Parse rejected the router advertisement: " + err.Error()
	}
	if err := h.ProcessPacket(f); err != nil {
		return "ProcessPacket rejected a well formed router advertisement: " + err.Error()
	}
	if !scribbleOff {
		for i := range buf {
			buf[i] = 0xa5 // the learned state must not alias the packet buffer (C10)
		}
	}
	// reference decode
	ic := frame[14+40:]
	flags, hop := ic[5], ic[4]
	lifetime := uint16(ic[6])<<8 | uint16(ic[7])
	reach := uint32(ic[8])<<24 | uint32(ic[9])<<16 | uint32(ic[10])<<8 | uint32(ic[11])
	retrans := uint32(ic[12])<<24 | uint32(ic[13])<<16 | uint32(ic[14])<<8 | uint32(ic[15])
	var prefixes []refPrefix
	var mtu uint32
	var rdnss []netip.Addr
	var rdLife uint32
	var dnssl []string
	var slla []byte
	var route *refPrefix
	o := ic[16:]
	for len(o) > 0 {
		l := int(o[1]) * 8
		v := o[2:l]
		switch o[0] {
		case 1:
			slla = v[:6]
		case 3:
			p := refPrefix{length: v[0], flags: v[1], valid: be32u(v[2:6]), preferred: be32u(v[6:10])}
			copy(p.addr[:], v[14:30])
			prefixes = append(prefixes, p)
		case 5:
			mtu = be32u(v[2:6])
		case 24:
			r := refPrefix{length: v[0], pref: (v[1] >> 3) & 3, lifetime: be32u(v[2:6])}
			copy(r.addr[:], v[6:])
			route = &r
		case 25:
			rdLife = be32u(v[2:6])
			rdnss = nil
			for i := 6; i+16 <= len(v); i += 16 {
				rdnss = append(rdnss, netip.AddrFrom16([16]byte(v[i:i+16])))
			}
		case 31:
			dnssl = nil
			i := 6
			var labels []string
			for i < len(v) && v[i] != 0 || len(labels) > 0 {
				if v[i] == 0 {
					dnssl = append(dnssl, strings.Join(labels, "."))
					labels = nil
					i++
					if i >= len(v) {
						break
					}
					continue
				}
				labels = append(labels, string(v[i+1:i+1+int(v[i])]))
				i += 1 + int(v[i])
			}
		}
		o = o[l:]
	}
	r := h.FindRouter(env.RouterLLA)
	if len(h.LANRouters) != 1 || r.Addr.IP != env.RouterLLA {
		return fmt.Sprintf("router table has %d entries, want exactly the advertising router %v", len(h.LANRouters), env.RouterLLA)
	}
	wantMAC := []byte(env.RouterMAC)
	if slla != nil {
		wantMAC = slla
	} else if pre != nil {
		wantMAC = r.Addr.MAC // a later advertisement without the option: which address is kept is not constrained
	}
	var diffs []string
	chk := func(name string, got, want any) {
		if fmt.Sprint(got) != fmt.Sprint(want) {
			diffs = append(diffs, fmt.Sprintf("%s=%v want %v", name, got, want))
		}
	}
	chk("source link-layer address", net.HardwareAddr(r.Addr.MAC), net.HardwareAddr(wantMAC))
	chk("managed flag", r.ManagedFlag, flags&0x80 != 0)
	chk("other-config flag", r.OtherCondigFlag, flags&0x40 != 0)
	chk("preference", r.Preference, (flags&0x18)>>3)
	chk("hop limit", r.CurHopLimit, hop)
	chk("router lifetime", r.DefaultLifetime, time.Duration(lifetime)*time.Second)
	chk("reachable time", r.ReacheableTime, int(reach))
	chk("retransmit timer", r.RetransTimer, int(retrans))
	chk("prefix count", len(r.Prefixes), len(prefixes))
	if len(r.Prefixes) == len(prefixes) {
		for i, p := range prefixes {
			g := r.Prefixes[i]
			masked := net.IP(p.addr[:]).Mask(net.CIDRMask(int(p.length), 128))
			chk(fmt.Sprintf("prefix[%d]", i), fmt.Sprintf("%d %v %v %v %v %v", g.PrefixLength, g.OnLink, g.AutonomousAddressConfiguration, g.ValidLifetime, g.PreferredLifetime, g.Prefix),
				fmt.Sprintf("%d %v %v %v %v %v", p.length, p.flags&0x80 != 0, p.flags&0x40 != 0, time.Duration(p.valid)*time.Second, time.Duration(p.preferred)*time.Second, masked))
		}
	}
	chk("mtu", uint32(r.Options.MTU), mtu)
	var gotDNS []netip.Addr
	for _, sv := range r.Options.RDNSS.Servers {
		a, _ := netip.AddrFromSlice(sv)
		gotDNS = append(gotDNS, a)
	}
	chk("rdnss servers", gotDNS, rdnss)
	if rdnss != nil {
		chk("rdnss lifetime", r.Options.RDNSS.Lifetime, time.Duration(rdLife)*time.Second)
	}
	chk("dns search list", r.Options.DNSSearchList.DomainNames, dnssl)
	if route != nil {
		g := r.Options.RouteInformation
		chk("route information", fmt.Sprintf("%d %d %v %x", g.PrefixLength, g.Preference, g.RouteLifetime, []byte(g.Prefix)),
			fmt.Sprintf("%d %d %v %x", route.length, route.pref, time.Duration(route.lifetime)*time.Second, prefixBytes(route.addr, int(route.length))))
	}
	if differential {
		// C10 compares the complete retained state of two runs, not only its agreement with the reference decode
		return fmt.Sprintf("router{mac=%s ip=%v flags=%v/%v pref=%d hop=%d life=%v reach=%d retrans=%d prefixes=%v options{mtu=%d prefixes=%v first=%v rdnss=%v/%v slla=%s tlla=%s dnssl=%v route=%d/%d/%v/%x} default=%v} %s",
			net.HardwareAddr(r.Addr.MAC), r.Addr.IP, r.ManagedFlag, r.OtherCondigFlag, r.Preference, r.CurHopLimit, r.DefaultLifetime, r.ReacheableTime, r.RetransTimer, r.Prefixes,
			r.Options.MTU, r.Options.Prefixes, r.Options.FirstPrefix, r.Options.RDNSS.Lifetime, r.Options.RDNSS.Servers, net.HardwareAddr(r.Options.SourceLLA.MAC), net.HardwareAddr(r.Options.TargetLLA.MAC),
			r.Options.DNSSearchList.DomainNames, r.Options.RouteInformation.PrefixLength, r.Options.RouteInformation.Preference, r.Options.RouteInformation.RouteLifetime, []byte(r.Options.RouteInformation.Prefix),
			h.Router != nil && h.Router.Addr.IP == r.Addr.IP, strings.Join(diffs, "; "))
	}
	if len(diffs) > 0 {
		return strings.Join(diffs, "; ")
	}
	return ""
}

// c14MalformedMTU delivers an advertisement whose MTU option is malformed: no MTU may be recorded.
func c14MalformedMTU(st *c14State, frame []byte) (what string) {
	defer func() {
		if e := recover(); e != nil {
			what = fmt.Sprintf("panic: %v @%s", e, panicSite())
			st.s = nil
		}
	}()
	if st.s == nil {
		st.s, _ = env.NewSession(env.DefaultNIC(), packet.Config{})
	}
	icmp.VerifReset()
	h, _ := icmp.New6(st.s)
	if f, err := st.s.Parse(append([]byte(nil), frame...)); err == nil {
		h.ProcessPacket(f)
	}
	if r := h.FindRouter(env.RouterLLA); r.Options.MTU != 0 {
		return fmt.Sprintf("malformed-mtu recorded (MTU %d)", r.Options.MTU)
	}
	return ""
}

// c14Rejected delivers an advertisement with malformed options: if the handler rejects it, it must not have learned a
// router from it.
func c14Rejected(st *c14State, frame []byte) (what string) {
	defer func() {
		if e := recover(); e != nil {
			what = fmt.Sprintf("panic: %v @%s", e, panicSite())
			st.s = nil
		}
	}()
	if st.s == nil {
		st.s, _ = env.NewSession(env.DefaultNIC(), packet.Config{})
	}
	icmp.VerifReset()
	h, _ := icmp.New6(st.s)
	f, err := st.s.Parse(append([]byte(nil), frame...))
	if err != nil {
		return ""
	}
	if err := h.ProcessPacket(f); err == nil {
		return "" // accepted (lenient decoding of this shape is not constrained here)
	}
	if len(h.LANRouters) != 0 || h.Router != nil {
		return fmt.Sprintf("rejected-advertisement learned: ProcessPacket returned an error but the router table has %d entries (default router set: %v)", len(h.LANRouters), h.Router != nil)
	}
	return ""
}

// prefixBytes returns the ceil(bits/8) leading bytes of a prefix with the bits beyond the prefix length cleared.
func prefixBytes(a [16]byte, bits int) []byte {
	n := (bits + 7) / 8
	out := append([]byte(nil), a[:n]...)
	if r := bits % 8; r != 0 {
		out[n-1] &= 0xff << (8 - r)
	}
	return out
}

func be32u(b []byte) uint32 {
	return uint32(b[0])<<24 | uint32(b[1])<<16 | uint32(b[2])<<8 | uint32(b[3])
}

func c14LearnSweep(c *core.Ctx) {
	st := &c14State{}
	opts := c14Options()
	maxLen := 2
	if c.Thorough() {
		maxLen = 3
	}
	unit := 0
	next := func() bool { unit++; return c.Mine(unit - 1) }
	flagSet := []byte{0x00, 0x80, 0x40, 0x08, 0x18, 0xc8, 0xff}
	var rec func(cur []raOpt)
	rec = func(cur []raOpt) {
		if next() {
			for _, fl := range flagSet {
				for _, life := range []uint16{0, 1800, 65535} {
					c14Learn(c, st, cur, fl, life, 64, 0, 0)
				}
			}
			c14Learn(c, st, cur, 0x40, 1800, 255, 3600000, 0xffffffff)
			c14Learn(c, st, cur, 0x40, 1800, 0, 1, 1000)
		}
		if len(cur) == maxLen {
			return
		}
		for _, o := range opts {
			// at most one option of the single valued kinds (the statement does not say which of two wins)
			dup := false
			for _, x := range cur {
				if (x.mtu != 0 && o.mtu != 0) || (x.rdnss != nil && o.rdnss != nil) || (x.dnssl != nil && o.dnssl != nil) || (x.route != nil && o.route != nil) || (x.slla != nil && o.slla != nil) || x.name == o.name {
					dup = true
				}
			}
			if dup {
				continue
			}
			rec(append(append([]raOpt(nil), cur...), o))
		}
	}
	rec(nil)
	// two advertisements of the same router: the table follows the last one (options that disappear, a new source
	// link-layer address, a different ethernet source without the option)
	on := func(name string) raOpt {
		for _, o := range opts {
			if o.name == name {
				return o
			}
		}
		panic("no option " + name)
	}
	first := []raOpt{on("prefix/64"), on("mtu1500"), on("rdnss2"), on("dnssl"), on("slla")}
	slla2 := raOpt{name: "slla'", raw: refnet.NDPOption(1, []byte{0x02, 0xaa, 0xbb, 0xcc, 0xdd, 0x77}), slla: []byte{0x02, 0xaa, 0xbb, 0xcc, 0xdd, 0x77}}
	for _, second := range [][]raOpt{{}, {on("prefix/0")}, {on("mtu1280")}, {on("rdnss1")}, {on("route/0")}, {slla2}, {on("prefix/64"), on("mtu1500"), on("rdnss2"), on("dnssl"), slla2},
		// the router keeps its first prefix and changes something else: another MTU, another resolver list, a second prefix, fewer options
		{on("prefix/64"), on("mtu1280"), on("rdnss2"), on("dnssl"), on("slla")}, {on("prefix/64"), on("mtu1500"), on("rdnss1"), on("slla")},
		{on("prefix/64"), on("prefix/128"), on("mtu1500"), on("rdnss2"), on("dnssl"), on("slla")}, {on("prefix/64")}} {
		if !next() {
			continue
		}
		for _, srcMAC := range [][]byte{env.RouterMAC, rtr2MAC} {
			c14LearnPair(c, st, first, second, srcMAC)
		}
	}
	// DNS search lists of every length class: one and two names whose encoding leaves 0..7 bytes of padding
	for n := 1; n <= 16; n++ {
		if !next() {
			continue
		}
		one := strings.Repeat("a", n) + ".io"
		two := strings.Repeat("b", n) + ".lan"
		c14Learn(c, st, []raOpt{{name: fmt.Sprintf("dnssl-1x%d", n), raw: c14DNSSL(1200, one), dnssl: []string{one}}}, 0x40, 1800, 64, 0, 0)
		c14Learn(c, st, []raOpt{{name: fmt.Sprintf("dnssl-2x%d", n), raw: c14DNSSL(600, one, two), dnssl: []string{one, two}}}, 0x40, 1800, 64, 0, 0)
	}
	// every option length field 1..150 (8..1200 bytes; 32 and more do not fit a byte once multiplied by 8): recursive
	// DNS server lists of 1..40 servers, search lists and unknown options of every length, each followed by an MTU
	// option that the option walker only finds if it stepped over the long option correctly
	mtu1500 := on("mtu1500")
	for n := 1; n <= 40; n++ {
		if !next() {
			continue
		}
		v := []byte{0, 0, 0, 0, 0x02, 0x58}
		var servers []netip.Addr
		for i := 0; i < n; i++ {
			a := netip.AddrFrom16([16]byte{0x20, 0x01, 0x0d, 0xb8, 15: byte(i + 1)})
			servers = append(servers, a)
			v = append(v, a.AsSlice()...)
		}
		c14Learn(c, st, []raOpt{{name: fmt.Sprintf("rdnss-x%d", n), raw: refnet.NDPOption(25, v), rdnss: servers, rdLife: 600}, mtu1500}, 0x40, 1800, 64, 0, 0)
	}
	for unit := 2; unit <= 150; unit++ {
		if !next() {
			continue
		}
		var names []string
		t := unit*8 - 8 // bytes of encoded names that fill the option exactly
		for t > 68 {
			names = append(names, strings.Repeat("x", 63))
			t -= 65
		}
		if t > 65 {
			names = append(names, strings.Repeat("y", 30))
			t -= 32
		}
		names = append(names, strings.Repeat("z", t-2))
		c14Learn(c, st, []raOpt{{name: fmt.Sprintf("dnssl-len%d", unit), raw: c14DNSSL(1200, names...), dnssl: names}, mtu1500}, 0x40, 1800, 64, 0, 0)
		c14Learn(c, st, []raOpt{{name: fmt.Sprintf("unknown14-len%d", unit), raw: refnet.NDPOption(14, make([]byte, unit*8-2))}, mtu1500}, 0x40, 1800, 64, 0, 0)
	}
	// an MTU option is 8 bytes long: one whose length field says 2..150 units is malformed and must not be recorded
	for unit := 2; unit <= 150; unit++ {
		if !next() {
			continue
		}
		c.Count("evaluations", 1)
		v := make([]byte, unit*8-2)
		v[4], v[5] = 0x23, 0x28 // 9000 where the MTU of a well formed option is
		body := refnet.RA(64, 0x40, 1800, 0, 0, refnet.NDPOption(5, v))
		frame := refnet.Eth([]byte{0x33, 0x33, 0, 0, 0, 1}, env.RouterMAC, 0x86dd, refnet.IP6(env.RouterLLA, mc6, 58, 255, refnet.ICMP6(env.RouterLLA, mc6, 134, 0, body), -1))
		if what := c14MalformedMTU(st, frame); what != "" && !differential {
			c.Violate("router-learning|"+firstWords(what, 2), fmt.Sprintf("RA with an MTU option of %d bytes (length field %d, must be 1): %s", unit*8, unit, what), c14Replay{Kind: "ramtu", Frame: hex.EncodeToString(frame)})
		}
		c.Distinct(frame)
	}
	// advertisements the decoder rejects: whatever a rejected advertisement says, no router may be learned from it
	// (and none may become the router the spoof loops impersonate)
	prefixOK := on("prefix/64").raw
	for name, raw := range map[string][]byte{
		"prefix-truncated":      prefixOK[:16],
		"prefix-then-truncated": append(append([]byte(nil), prefixOK...), prefixOK[:24]...),
		"zero-length-option":    {3, 0, 0, 0, 0, 0, 0, 0},
		"slla-then-zero-length": append(append([]byte(nil), on("slla").raw...), 1, 0, 0, 0, 0, 0, 0, 0),
		"length-beyond-message": {25, 9, 0, 0, 0, 0, 0, 60, 1, 2, 3, 4, 5, 6, 7, 8},
	} {
		if !next() {
			continue
		}
		c.Count("evaluations", 1)
		body := refnet.RA(64, 0x40, 1800, 0, 0, raw)
		frame := refnet.Eth([]byte{0x33, 0x33, 0, 0, 0, 1}, env.RouterMAC, 0x86dd, refnet.IP6(env.RouterLLA, mc6, 58, 255, refnet.ICMP6(env.RouterLLA, mc6, 134, 0, body), -1))
		if what := c14Rejected(st, frame); what != "" && !differential {
			c.Violate("router-learning|"+firstWords(what, 2), fmt.Sprintf("RA with malformed options (%s): %s", name, what), c14Replay{Kind: "rabad", Frame: hex.EncodeToString(frame)})
		}
		c.Distinct(frame)
	}
	// all 256 flag bytes for a few representative option lists
	for fl := 0; fl < 256; fl++ {
		if !next() {
			continue
		}
		c14Learn(c, st, nil, byte(fl), 1800, 64, 0, 0)
		c14Learn(c, st, []raOpt{opts[0], opts[3], opts[11]}, byte(fl), 1800, 64, 30000, 1000)
	}
}

func c14Run(c *core.Ctx, args []string) {
	c.Res.Level = "model_checking"
	c.Res.Rule = "(a) confinement: every API history of length <=2 (thorough <=3) over {StartHunt(link-local / address-less / global / IPv4 target), StopHunt(link-local / address-less), Close} x RA delivery sequences {none, r1, r1 r1, r1 r2, r2 r1 r1 r1 r1}; stateless DFS over all schedules up to the deviation bound, then two spoof cycles, Close, two more cycles; linear-time monitor over emitted neighbour advertisements (override, hop limit 255, only to hunted MACs, only for learned routers, at most one in-flight batch after StopHunt, none one cycle after Close, IPv4 rejected, non link-local ignored, one loop per MAC). (b) router learning: every RA built from all option sequences of length <=2 (thorough <=3) over 16 options x flag set x lifetimes, DNS search lists of every padding length, all 256 flag bytes, and pairs of advertisements of one router (the table follows the last one); learned router compared with the reference decode. distinct = observation vectors (a) + distinct RA frames (b)"
	c.Res.Assumptions = []string{"one in-flight batch of advertisements per loop may leave after StopHunt returned", "each RA is delivered as the first of its group (the handler processes every 4th RA); at most one option of each single-valued kind per RA", "address-less targets are reached by unicast MAC + all-nodes destination (reported under C07, not here)"}
	if c.Job == "learn" {
		c14LearnSweep(c)
		c.Res.Counters["states"] = int64(c.DistinctCount())
		c.Res.Counters["transitions"] = c.Res.Counters["evaluations"]
		c.Sample(map[string]any{"ra_options": []string{"prefix/64", "rdnss2"}, "flags": "0xc8", "lifetime": 65535}, 4)
		return
	}
	apiLen, bound := 2, 1
	if c.Thorough() {
		apiLen, bound = 3, 2
	}
	for i, sc := range c14Scenarios(apiLen) {
		if !c.Mine(i) {
			continue
		}
		if c.Deadline > 0 && time.Now().Unix() > c.Deadline-30 {
			c.Cap("time budget: scenario list not completed")
			break
		}
		sub := *c
		sub.Shard, sub.NShards = 0, 1
		exploreScenario(&sub, "C14", sc, bound)
		c.Count("scenarios", 1)
	}
	// one more deviation for the API histories of length <= 2 with one router advertisement delivered
	var deep []*concScenario
	for _, a := range c14Histories(2) {
		lla := true // only the operations on the link-local target and Close (the ones that start and stop loops)
		for _, op := range a {
			if op != 0 && op != 4 && op != 6 {
				lla = false
			}
		}
		if lla {
			deep = append(deep, c14Scenario(a, []int{0}))
		}
	}
	for i, sc := range deep {
		if !c.Mine(i + 7) {
			continue
		}
		if c.Deadline > 0 && time.Now().Unix() > c.Deadline-30 {
			c.Cap("time budget: deeper schedules not completed")
			break
		}
		sub := *c
		sub.Shard, sub.NShards = 0, 1
		exploreScenario(&sub, "C14", sc, bound+1)
		c.Count("scenarios_deeper", 1)
	}
	c.Res.Bound = fmt.Sprintf("API histories <= %d, deviation bound %d (%d for the %d API histories of length <= 2 with one router advertisement), clock horizon 16 firings", apiLen, bound, bound+1, len(deep))
	c.Res.Counters["states"] = int64(c.DistinctCount())
	c.Sample(map[string]any{"scenario": "na[StartHunt(lla),StopHunt(lla)|RA(r1)]", "schedule": []int{0, 0, 1}}, 4)
}

func init() {
	replayConf := concReplayer(func() []*concScenario { return c14Scenarios(3) })
	Registry["C14"] = &Driver{
		Plan: func(tier string) []core.Job {
			jobs := shardJobs("hunt", 12, false, 1700)
			return append(jobs, shardJobs("learn", 4, false, 900)...)
		},
		Run: c14Run,
		Replay: func(data []byte) string {
			var r c14Replay
			if jsonUnmarshal(data, &r) == nil && r.Kind == "ra" {
				f, _ := hex.DecodeString(r.Frame)
				return c14Check(&c14State{}, f)
			}
			if r.Kind == "rabad" {
				f, _ := hex.DecodeString(r.Frame)
				return c14Rejected(&c14State{}, f)
			}
			if r.Kind == "ramtu" {
				f, _ := hex.DecodeString(r.Frame)
				return c14MalformedMTU(&c14State{}, f)
			}
			if r.Kind == "ra2" {
				f, _ := hex.DecodeString(r.Frame)
				p, _ := hex.DecodeString(r.Pre)
				return c14CheckSeq(&c14State{}, [][]byte{p}, f)
			}
			return replayConf(data)
		},
	}
}
