package props

import "encoding/json"

func jsonUnmarshal(data []byte, v any) error { return json.Unmarshal(data, v) }
