package props

import "harness/core"

// C16 runs in the un-instrumented binary (cmd/vplain); here is only its plan.
func init() {
	Registry["C16"] = &Driver{
		Plan: func(tier string) []core.Job {
			jobs := shardJobs("alloc", 4, false, 900)
			for i := range jobs {
				jobs[i].Bin = "vplain"
			}
			return jobs
		},
		Run: func(c *core.Ctx, args []string) { c.Note("C16 runs in vplain") },
	}
}
