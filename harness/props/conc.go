package props

import (
	"fmt"
	"os"
	"strings"
	"time"

	"harness/core"
	"harness/econc"

	"github.com/irai/packet/verifshim/vsched"
)

// Shared infrastructure of the schedule explorations (C09, C13, C14a, C19).

// concScenario is one closed multi-threaded harness.
type concScenario struct {
	name     string
	maxClock int
	// body runs as the main controlled goroutine; it returns an observation string and oracle failures.
	// state inspection that is not race-detector neutral must be deferred to post (run after every goroutine died).
	body func(x *concExec)
	post func(x *concExec)
}

// concExec carries the per-execution observations.
type concExec struct {
	obs      []string
	failures []string // "sig|what"
	data     map[string]any
}

//go:norace
func (x *concExec) fail(sig, what string) {
	x.failures = append(x.failures, sig+"|"+what)
}

//go:norace
func (x *concExec) observe(s string) { x.obs = append(x.obs, s) }

type concReplay struct {
	Kind     string `json:"kind"`
	Property string `json:"property"`
	Scenario string `json:"scenario"`
	Prefix   []int  `json:"prefix"`
	Race     bool   `json:"race"`
	MaxClock int    `json:"max_clock"`
}

// runSchedule executes one schedule of a scenario.
func runSchedule(sc *concScenario, prefix []int) (*vsched.Execution, *concExec) {
	x := &concExec{data: map[string]any{}}
	// MaxPoints: the longest execution of any harness has about 16 k scheduling points; an execution that needs four
	// times as many is spinning (reported as a livelock, not explored further, monitors not run over its frames)
	ex := vsched.Run(vsched.Config{Mode: vsched.ModeConc, Prefix: prefix, MaxClockFirings: sc.maxClock, MaxPoints: 60000, RecordPoints: os.Getenv("VERIF_DEBUG") != ""}, func() { sc.body(x) })
	early := 0
	for i := range ex.Points {
		p := &ex.Points[i]
		if p.Alts[p.Chosen].Gid == -1 && len(p.Alts) > 1 {
			early++ // the clock was advanced although a goroutine could run (models an arbitrarily slow goroutine)
		}
	}
	x.data["earlyClock"] = early
	if sc.post != nil && ex.Outcome != vsched.Diverged && ex.Outcome != vsched.StepLimit {
		sc.post(x)
	}
	return ex, x
}

// raceLog follows the race detector's log file (GORACE log_path) so that a report can be attributed to a schedule.
type raceLog struct {
	path string
	off  int64
}

func newRaceLog() *raceLog {
	p := os.Getenv("VERIF_RACELOG")
	if p == "" || !vsched.RaceBuild {
		return nil
	}
	return &raceLog{path: fmt.Sprintf("%s.%d", p, os.Getpid())}
}

// fresh returns the text appended since the last call.
func (r *raceLog) fresh() string {
	if r == nil {
		return ""
	}
	data, err := os.ReadFile(r.path)
	if err != nil || int64(len(data)) <= r.off {
		return ""
	}
	s := string(data[r.off:])
	r.off = int64(len(data))
	return s
}

// raceSig extracts the unordered pair of innermost repository functions of the first report in text.
func raceSig(text string) string {
	var fns []string
	lines := strings.Split(text, "\n")
	for i, l := range lines {
		t := strings.TrimSpace(l)
		if strings.HasPrefix(t, "Read at") || strings.HasPrefix(t, "Write at") || strings.HasPrefix(t, "Previous read at") || strings.HasPrefix(t, "Previous write at") {
			for k := i + 1; k < len(lines) && strings.TrimSpace(lines[k]) != ""; k++ {
				f := strings.TrimSpace(lines[k])
				if strings.HasPrefix(f, "github.com/irai/packet") && !strings.Contains(f, "verifshim") {
					if p := strings.Index(f, "("); p > 0 && !strings.HasPrefix(f[p:], "(*") {
						f = f[:p]
					} else if p := strings.LastIndex(f, "("); p > 0 {
						f = f[:p]
					}
					f = strings.TrimPrefix(f, "github.com/irai/packet")
					for strings.HasSuffix(f, ".func1") || strings.HasSuffix(f, ".func2") || strings.HasSuffix(f, ".gowrap1") {
						f = f[:strings.LastIndex(f, ".")]
					}
					fns = append(fns, f)
					break
				}
			}
		}
		if len(fns) == 2 {
			break
		}
	}
	if len(fns) == 2 && fns[0] > fns[1] {
		fns[0], fns[1] = fns[1], fns[0]
	}
	return strings.Join(fns, "+")
}

// exploreScenario runs the bounded DFS of one scenario and reports oracle failures.
func exploreScenario(c *core.Ctx, prop string, sc *concScenario, bound int) {
	rl := newRaceLog()
	e := &econc.Explorer{Bound: bound, Shard: c.Shard, NShards: c.NShards}
	if c.Deadline > 0 {
		e.Deadline = time.Unix(c.Deadline-20, 0)
	}
	var cur *concExec
	run := func(prefix []int) (*vsched.Execution, string) {
		c.Progress(fmt.Sprintf("scenario=%s prefix=%v", sc.name, prefix))
		ex, x := runSchedule(sc, prefix)
		cur = x
		return ex, strings.Join(x.obs, ";")
	}
	e.OnExec = func(choices []int, cost int, ex *vsched.Execution, obs string) bool {
		rp := concReplay{Kind: "schedule", Property: prop, Scenario: sc.name, Prefix: choices, Race: vsched.RaceBuild, MaxClock: sc.maxClock}
		switch ex.Outcome {
		case vsched.Deadlock:
			c.Violate("deadlock|"+sc.name+"|"+strings.Join(ex.Blocked, ","), fmt.Sprintf("%s deadlocks after %d scheduling points (%d deviations): blocked=%v", sc.name, len(ex.Points), cost, ex.Blocked), rp)
		case vsched.Panicked:
			c.Violate("panic|"+sc.name+"|"+panicSig(ex.Panics), fmt.Sprintf("%s panics (%d deviations): %s", sc.name, cost, firstLines(ex.Panics, 12)), rp)
		case vsched.StepLimit:
			c.Violate("livelock|"+sc.name, fmt.Sprintf("%s exceeds the scheduling point limit", sc.name), rp)
		case vsched.Diverged:
			c.Violate("nondeterminism|"+sc.name, fmt.Sprintf("%s: replay diverged: %v", sc.name, ex.Panics), rp)
		case vsched.Horizon:
			c.Count("horizon_executions", 1)
		}
		for _, f := range cur.failures {
			parts := strings.SplitN(f, "|", 2)
			c.Violate(parts[0]+"|"+scenarioFamily(sc.name), fmt.Sprintf("%s (%d deviations, %d scheduling points): %s", sc.name, cost, len(ex.Points), parts[1]), rp)
		}
		if txt := rl.fresh(); txt != "" {
			c.Violate("race|"+raceSig(txt), fmt.Sprintf("%s (%d deviations): data race\n%s", sc.name, cost, firstLinesStr(txt, 40)), rp)
		}
		return true
	}
	e.Explore(run)
	st := e.Stats
	c.Count("executions", st.Executions)
	c.Count("evaluations", st.Executions)
	c.Count("transitions", st.Points)
	c.Count("contended_executions", st.Contended)
	for k, v := range st.Outcomes {
		c.Count("outcome_"+k, v)
	}
	for i, n := range st.PerCost {
		c.Count(fmt.Sprintf("executions_with_%d_deviations", i), n)
	}
	for o := range st.Observations {
		c.Distinct([]byte(sc.name + "#" + o))
	}
	if st.MaxPoints > int(c.Res.Counters["max_points_per_execution"]) {
		c.Res.Counters["max_points_per_execution"] = int64(st.MaxPoints)
	}
	if st.CapHit != "" {
		c.Cap(sc.name + ": " + st.CapHit)
	}
}

func panicSig(p []string) string {
	if len(p) == 0 {
		return "?"
	}
	lines := strings.Split(p[0], "\n")
	msg := lines[0]
	site := "?"
	for _, l := range lines {
		t := strings.TrimSpace(l)
		if strings.HasPrefix(t, "github.com/irai/packet") && !strings.Contains(t, "verifshim") {
			site = strings.TrimPrefix(t, "github.com/irai/packet")
			if i := strings.LastIndex(site, "("); i > 0 {
				site = site[:i]
			}
			break
		}
	}
	if len(msg) > 60 {
		msg = msg[:60]
	}
	return msg + "@" + site
}

func firstLines(p []string, n int) string {
	if len(p) == 0 {
		return ""
	}
	return firstLinesStr(p[0], n)
}

func firstLinesStr(s string, n int) string {
	l := strings.Split(s, "\n")
	if len(l) > n {
		l = l[:n]
	}
	return strings.Join(l, "\n")
}

// concReplayer re-executes one recorded schedule.
func concReplayer(scenarios func() []*concScenario) func([]byte) string {
	return func(data []byte) string {
		var r concReplay
		if jsonUnmarshal(data, &r) != nil {
			return ""
		}
		for _, sc := range scenarios() {
			if sc.name != r.Scenario {
				continue
			}
			ex, x := runSchedule(sc, r.Prefix)
			if os.Getenv("VERIF_DEBUG") != "" {
				fmt.Fprintf(os.Stderr, "outcome=%s points=%d clock=%d blocked=%v\nobs=%v\nfailures=%v\n", ex.Outcome, len(ex.Points), ex.ClockFirings, ex.Blocked, x.obs, x.failures)
				var tr []string
				for i, p := range ex.Points {
					tr = append(tr, fmt.Sprintf("%d:%s/%d", i, p.Desc, len(p.Alts)))
					if p.Chosen != 0 {
						tr[len(tr)-1] += fmt.Sprintf("*%d", p.Chosen)
					}
				}
				fmt.Fprintln(os.Stderr, strings.Join(tr, " "))
				if d, ok := x.data["debug"].(string); ok {
					fmt.Fprintln(os.Stderr, d)
				}
			}
			switch ex.Outcome {
			case vsched.Deadlock, vsched.Panicked, vsched.StepLimit, vsched.Diverged:
				return fmt.Sprintf("%s: %s %v %s", sc.name, ex.Outcome, ex.Blocked, firstLines(ex.Panics, 6))
			}
			if len(x.failures) > 0 {
				return x.failures[0]
			}
		}
		return ""
	}
}

// concJobs plans one job per (scenario, build flavour) sharded n ways.
func concJobs(names []string, shards int, race bool, timeout int) []core.Job {
	var jobs []core.Job
	for _, n := range names {
		for i := 0; i < shards; i++ {
			jobs = append(jobs, core.Job{Args: []string{"-job", n, "-shard", itoa(i), "-nshards", itoa(shards)}, Race: race, Timeout: timeout})
		}
	}
	return jobs
}

// scenarioFamily strips the parameter list of generated scenario names ("ping44[...]" -> "ping44").
func scenarioFamily(n string) string {
	if i := strings.Index(n, "["); i > 0 {
		return n[:i]
	}
	return n
}
