package props

import (
	"encoding/hex"
	"fmt"
	"net/netip"
	"strings"

	"harness/core"
	"harness/env"
	"harness/refnet"

	"github.com/irai/packet"
	arp "github.com/irai/packet/handlers/arp_spoofer"
	dhcp4 "github.com/irai/packet/handlers/dhcp4_spoofer"
	dns "github.com/irai/packet/handlers/dns_naming"
	icmp "github.com/irai/packet/handlers/icmp_spoofer"
	"github.com/irai/packet/verifshim/vfs"
	"github.com/irai/packet/verifshim/vfuel"
	"github.com/irai/packet/verifshim/vsched"
)

// C08: protocol handlers terminate without panic on arbitrary packets.

// msg is a valid protocol message inside a full frame; off is the offset of the protocol payload in the frame and
// marked lists the payload offsets (relative to off) of length / count / type / pointer fields.
type msg struct {
	name   string
	frame  []byte
	off    int
	marked []int
}

func udp4(src, dst netip.Addr, sp, dp uint16, payload []byte) ([]byte, int) {
	return refnet.Eth(bcast, env.MAC1, 0x0800, refnet.IP4(src, dst, 17, refnet.UDP(sp, dp, payload), refnet.IP4Opt{})), 42
}

func dnsName(n string) []byte { return refnet.DNSName(n) }

func c08Messages() []msg {
	var m []msg
	add := func(name string, frame []byte, off int, marked ...int) { m = append(m, msg{name, frame, off, marked}) }
	zero6 := make([]byte, 6)
	// ---- ARP
	add("arp-request", refnet.Eth(bcast, env.MAC1, 0x0806, refnet.ARP(1, env.MAC1, ip4a, zero6, ip4rtr)), 14, 0, 1, 2, 3, 4, 5, 6, 7)
	add("arp-reply", refnet.Eth(env.HostMAC, env.MAC1, 0x0806, refnet.ARP(2, env.MAC1, ip4a, env.HostMAC, ip4host)), 14, 4, 5, 6, 7)
	add("arp-probe", refnet.Eth(bcast, env.MAC1, 0x0806, refnet.ARP(1, env.MAC1, ip4zero, zero6, ip4b)), 14, 7)
	add("arp-announce", refnet.Eth(bcast, env.MAC1, 0x0806, refnet.ARP(1, env.MAC1, ip4a, bcast, ip4a)), 14, 7)
	// ---- DHCP
	dh := func(name string, mt byte, sp, dp uint16, opts [][2][]byte) {
		all := append([][2][]byte{{{53}, {mt}}}, opts...)
		body := refnet.DHCP4Msg{Op: 1, XID: 0x01020304, CHAddr: env.MAC1, Options: all, Pad: 8}.Bytes()
		if dp == 68 {
			body[0] = 2
		}
		f, off := udp4(ip4zero, ip4bc, sp, dp, body)
		mk := []int{0, 1, 2, 236, 237, 238, 239, 240, 241, 242, 243, 244}
		add(name, f, off, mk...)
	}
	dh("dhcp-discover", 1, 68, 67, [][2][]byte{{{50}, ip4a.AsSlice()}, {{55}, {1, 3, 6, 15}}, {{12}, []byte("host1")}, {{61}, {1, 2, 0, 0, 0, 1, 1}}})
	dh("dhcp-request", 3, 68, 67, [][2][]byte{{{50}, ip4a.AsSlice()}, {{54}, ip4host.AsSlice()}, {{12}, []byte("host1")}})
	dh("dhcp-decline", 4, 68, 67, [][2][]byte{{{50}, ip4a.AsSlice()}, {{54}, ip4host.AsSlice()}})
	dh("dhcp-release", 7, 68, 67, [][2][]byte{{{54}, ip4host.AsSlice()}})
	dh("dhcp-inform", 8, 68, 67, nil)
	dh("dhcp-offer-to-client", 2, 67, 68, [][2][]byte{{{54}, ip4rtr.AsSlice()}, {{51}, {0, 0, 14, 16}}, {{1}, {255, 255, 255, 0}}})
	// ---- ICMPv4
	ic4 := func(name string, typ, code byte, rest [4]byte, body []byte, marked ...int) {
		add(name, refnet.Eth(env.HostMAC, env.MAC1, 0x0800, refnet.IP4(ip4a, ip4host, 1, refnet.ICMP4(typ, code, rest, body), refnet.IP4Opt{})), 34, marked...)
	}
	ic4("icmp4-echo", 8, 0, [4]byte{0, 1, 0, 1}, []byte("payload"), 0, 1)
	ic4("icmp4-echoreply", 0, 0, [4]byte{0, 1, 0, 1}, []byte("payload"), 0, 1)
	ic4("icmp4-redirect", 5, 1, [4]byte{192, 168, 0, 1}, refnet.IP4(ip4host, ip4off, 17, refnet.UDP(1000, 53, pat(8, 1)), refnet.IP4Opt{}), 0, 1, 8, 10, 11)
	ic4("icmp4-unreach-udp", 3, 3, [4]byte{}, refnet.IP4(ip4host, ip4a, 17, refnet.UDP(1000, 53, pat(8, 1)), refnet.IP4Opt{}), 0, 1, 8, 10, 11, 17)
	ic4("icmp4-unreach-tcp", 3, 2, [4]byte{}, refnet.IP4(ip4host, ip4a, 6, refnet.TCP(1000, 80, 1, 2, 5, 2, nil), refnet.IP4Opt{}), 0, 1, 8, 10, 11, 17, 40)
	ic4("icmp4-other", 11, 0, [4]byte{}, pat(28, 3), 0, 1)
	// ---- ICMPv6 / NDP
	ic6 := func(name string, src, dst netip.Addr, typ byte, body []byte, marked ...int) {
		add(name, refnet.Eth([]byte{0x33, 0x33, 0, 0, 0, 1}, env.RouterMAC, 0x86dd, refnet.IP6(src, dst, 58, 255, refnet.ICMP6(src, dst, typ, 0, body), -1)), 54, marked...)
	}
	pfx := make([]byte, 30)
	pfx[0], pfx[1] = 64, 0xc0
	copy(pfx[14:], []byte{0x20, 0x01, 0x0d, 0xb8})
	rdnss := append([]byte{0, 0, 0, 0, 2, 88}, gua1.AsSlice()...)
	dnssl := append([]byte{0, 0, 0, 0, 2, 88}, dnsName("example.com")...)
	route := []byte{64, 0x08, 0, 0, 2, 88, 0x20, 0x01, 0x0d, 0xb8, 0, 0, 0, 0}
	var allOpts []byte
	var optMarks []int
	for _, o := range [][]byte{refnet.NDPOption(1, env.RouterMAC), refnet.NDPOption(3, pfx), refnet.NDPOption(5, []byte{0, 0, 0, 0, 5, 220}), refnet.NDPOption(25, rdnss), refnet.NDPOption(31, dnssl), refnet.NDPOption(24, route), refnet.NDPOption(14, pat(6, 1))} {
		optMarks = append(optMarks, 16+len(allOpts), 17+len(allOpts), 18+len(allOpts))
		allOpts = append(allOpts, o...)
	}
	ic6("icmp6-ra-all-options", env.RouterLLA, mc6, 134, refnet.RA(64, 0x40, 1800, 0, 0, allOpts), append([]int{0, 5}, optMarks...)...)
	ic6("icmp6-ra-slla", env.RouterLLA, mc6, 134, refnet.RA(64, 0, 1800, 0, 0, refnet.NDPOption(1, env.RouterMAC)), 0, 16, 17)
	ic6("icmp6-rs", lla1, mc6, 133, append(make([]byte, 4), refnet.NDPOption(1, env.MAC1)...), 0, 8, 9)
	ic6("icmp6-ns", lla1, lla2, 135, refnet.NS(lla2, refnet.NDPOption(1, env.MAC1)), 0, 24, 25)
	ic6("icmp6-ns-gua", lla1, lla2, 135, refnet.NS(gua1, refnet.NDPOption(1, env.MAC1)), 0, 24, 25)
	ic6("icmp6-ns-dad", netip.IPv6Unspecified(), lla2, 135, refnet.NS(lla2, nil), 0)
	ic6("icmp6-na", lla1, mc6, 136, refnet.NA(0x20, lla1, refnet.NDPOption(2, env.MAC1)), 0, 4, 24, 25)
	ic6("icmp6-na-nooption", lla1, mc6, 136, refnet.NA(0x20, lla1, nil), 0, 4)
	ic6("icmp6-echo", lla1, env.HostLLA, 128, refnet.EchoBody(7, 1, []byte("data")), 0)
	ic6("icmp6-echoreply", lla1, env.HostLLA, 129, refnet.EchoBody(7, 1, []byte("data")), 0)
	ic6("icmp6-redirect", env.RouterLLA, lla1, 137, append(append(make([]byte, 4), append(lla2.AsSlice(), gua1.AsSlice()...)...), refnet.NDPOption(2, env.MAC2)...), 0, 40, 41)
	ic6("icmp6-mld-report", lla1, mc6, 131, append(make([]byte, 4), mc6.AsSlice()...), 0)
	ic6("icmp6-mldv2-report", lla1, mc6, 143, pat(24, 1), 0)
	ic6("icmp6-unreach", lla1, env.HostLLA, 1, pat(44, 1), 0)
	// ICMPv6 carried in IPv4 (the classification table is keyed on the protocol number only)
	add("icmp6-in-ip4-ns", refnet.Eth(env.HostMAC, env.MAC1, 0x0800, refnet.IP4(ip4a, ip4host, 58, append([]byte{135, 0, 0, 0}, refnet.NS(lla2, nil)...), refnet.IP4Opt{})), 34, 0)
	add("icmp6-in-ip4-ra", refnet.Eth(env.HostMAC, env.MAC1, 0x0800, refnet.IP4(ip4a, ip4host, 58, append([]byte{134, 0, 0, 0}, refnet.RA(64, 0, 1800, 0, 0, nil)...), refnet.IP4Opt{})), 34, 0)
	// ---- DNS
	q := dnsName("www.example.com")
	ptrq := dnsName("10.0.168.192.in-addr.arpa")
	ptr := []byte{0xc0, 12}
	dnsResp := func(name string, qname []byte, an, ns, ar [][]byte) {
		b := refnet.DNSHeader(7, 0x8180, 1, uint16(len(an)), uint16(len(ns)), uint16(len(ar)))
		b = append(b, refnet.DNSQuestion(qname, 1, 1)...)
		marks := []int{2, 3, 4, 5, 6, 7, 8, 9, 10, 11, 12}
		for _, sec := range [][][]byte{an, ns, ar} {
			for _, rr := range sec {
				marks = append(marks, len(b), len(b)+1, len(b)+2, len(b)+3, len(b)+10, len(b)+11)
				b = append(b, rr...)
			}
		}
		f, off := udp4(ip4rtr, ip4a, 53, 40000, b)
		f[6], f[7], f[8], f[9], f[10], f[11] = env.RouterMAC[0], env.RouterMAC[1], env.RouterMAC[2], env.RouterMAC[3], env.RouterMAC[4], env.RouterMAC[5]
		add(name, f, off, marks...)
	}
	rrA := refnet.DNSRR(ptr, 1, 1, 60, []byte{1, 2, 3, 4})
	rrAAAA := refnet.DNSRR(ptr, 28, 1, 60, gua1.AsSlice())
	rrCNAME := refnet.DNSRR(ptr, 5, 1, 60, append([]byte{3, 'w', 'w', '2'}, 0xc0, 16))
	rrMX := refnet.DNSRR(ptr, 15, 1, 60, append([]byte{0, 10, 4, 'm', 'a', 'i', 'l'}, 0xc0, 16))
	rrPTR := refnet.DNSRR(ptr, 12, 1, 60, dnsName("host.example.com"))
	rrTXT := refnet.DNSRR(ptr, 16, 1, 60, []byte{3, 'a', '=', 'b'})
	rrUnknown := refnet.DNSRR(ptr, 99, 1, 60, pat(5, 1))
	rrBadA := refnet.DNSRR(ptr, 1, 1, 60, []byte{1, 2, 3})
	dnsResp("dns-a", q, [][]byte{rrA}, nil, nil)
	dnsResp("dns-multi", q, [][]byte{rrCNAME, rrA, rrAAAA, rrMX, rrTXT, rrUnknown}, nil, nil)
	dnsResp("dns-ptr", ptrq, [][]byte{rrPTR}, nil, nil)
	dnsResp("dns-bad-a", q, [][]byte{rrBadA}, nil, nil)
	// (iv) record type x section x good/bad
	for ti, rr := range [][]byte{rrA, rrAAAA, rrCNAME, rrPTR, rrMX, rrTXT, rrUnknown, rrBadA} {
		dnsResp(fmt.Sprintf("dns-sec-an-%d", ti), q, [][]byte{rr}, nil, nil)
		dnsResp(fmt.Sprintf("dns-sec-ns-%d", ti), q, nil, [][]byte{rr}, nil)
		dnsResp(fmt.Sprintf("dns-sec-ar-%d", ti), q, nil, nil, [][]byte{rr})
	}
	// ---- mDNS / LLMNR
	mdns := func(name string, port uint16, flags uint16, qs [][]byte, an, ns, ar [][]byte) {
		b := refnet.DNSHeader(0, flags, uint16(len(qs)), uint16(len(an)), uint16(len(ns)), uint16(len(ar)))
		marks := []int{2, 3, 4, 5, 6, 7, 8, 9, 10, 11, 12}
		for _, x := range qs {
			b = append(b, x...)
		}
		for _, sec := range [][][]byte{an, ns, ar} {
			for _, rr := range sec {
				marks = append(marks, len(b), len(b)+1)
				b = append(b, rr...)
			}
		}
		f, off := udp4(ip4a, netip.MustParseAddr("224.0.0.251"), port, port, b)
		add(name, f, off, marks...)
	}
	host := dnsName("host1.local")
	svc := dnsName("_airplay._tcp.local")
	mA := refnet.DNSRR(host, 1, 1, 120, ip4a.AsSlice())
	mAAAA := refnet.DNSRR(host, 28, 1, 120, lla1.AsSlice())
	mPTR := refnet.DNSRR(svc, 12, 1, 120, dnsName("tv._airplay._tcp.local"))
	mSRV := refnet.DNSRR(dnsName("tv._airplay._tcp.local"), 33, 1, 120, append([]byte{0, 0, 0, 0, 0x1b, 0x58}, host...))
	mTXT := refnet.DNSRR(dnsName("tv._airplay._tcp.local"), 16, 1, 120, []byte{13, 'm', 'o', 'd', 'e', 'l', '=', 'A', 'p', 'p', 'l', 'e', 'T', 'V', 3, 'a', '=', 'b', 3, 'c', '=', 'd'})
	mNSEC := refnet.DNSRR(host, 47, 1, 120, append(append([]byte{}, host...), 0, 4, 0x40, 0, 0, 8))
	mOPT := refnet.DNSRR([]byte{0}, 41, 1440, 0x1194, []byte{0, 4, 0, 14, 0, 0x6c, 0x6a, 0x78, 0, 0, 0, 0, 0, 0, 0, 0, 0, 0})
	mUnknown := refnet.DNSRR(host, 250, 1, 120, pat(4, 2))
	mdns("mdns-query", 5353, 0, [][]byte{refnet.DNSQuestion(host, 255, 1), refnet.DNSQuestion(dnsName("_sleep-proxy._udp.local"), 12, 1)}, nil, nil, nil)
	mdns("mdns-response", 5353, 0x8400, nil, [][]byte{mPTR, mSRV, mTXT, mA, mAAAA}, nil, nil)
	mdns("mdns-response-authority", 5353, 0x8400, nil, [][]byte{mA}, [][]byte{mNSEC, mSRV}, nil)
	mdns("mdns-response-additional", 5353, 0x8400, nil, [][]byte{mPTR}, nil, [][]byte{mSRV, mTXT, mA, mNSEC, mOPT, mUnknown})
	mdns("llmnr-query", 5355, 0, [][]byte{refnet.DNSQuestion(dnsName("desktop1"), 1, 1)}, nil, nil, nil)
	mdns("llmnr-response", 5355, 0x8000, [][]byte{refnet.DNSQuestion(dnsName("desktop1"), 1, 1)}, [][]byte{refnet.DNSRR(dnsName("desktop1"), 1, 1, 30, ip4a.AsSlice())}, nil, nil)
	for ti, rr := range [][]byte{mA, mAAAA, mPTR, mSRV, mTXT, mNSEC, mOPT, mUnknown} {
		mdns(fmt.Sprintf("mdns-sec-ns-%d", ti), 5353, 0x8400, nil, nil, [][]byte{rr}, nil)
		mdns(fmt.Sprintf("mdns-sec-ar-%d", ti), 5353, 0x8400, nil, nil, nil, [][]byte{rr})
	}
	// ---- NBNS
	nbname := append([]byte{0x20}, []byte("FHEPFCELEHFCEPFFFACACACACACACAAA")...)
	nbname = append(nbname, 0)
	nb := func(name string, rtype uint16, rdata []byte) {
		b := refnet.DNSHeader(9, 0x8400, 0, 1, 0, 0)
		marks := []int{2, 3, 4, 5, 6, 7, 12, 12 + 34, 12 + 35, 12 + 42, 12 + 43, 12 + 44}
		b = append(b, refnet.DNSRR(nbname, rtype, 1, 0, rdata)...)
		f, off := udp4(ip4a, ip4host, 137, 137, b)
		add(name, f, off, marks...)
	}
	names := []byte{2}
	names = append(names, append([]byte("WORKSTATION1   \x00"), 0x04, 0x00)...)
	names = append(names, append([]byte("WORKGROUP      \x00"), 0x84, 0x00)...)
	names = append(names, make([]byte, 46)...)
	nb("nbns-nodestatus", 0x21, names)
	nb("nbns-name", 0x20, []byte{0, 0, 192, 168, 0, 10})
	nb("nbns-other", 0x0a, pat(6, 1))
	nb("nbns-nodestatus-short", 0x21, []byte{3, 'A', 'B'})
	nbq := append(refnet.DNSHeader(9, 0x0010, 1, 0, 0, 0), refnet.DNSQuestion(nbname, 0x21, 1)...)
	fq, offq := udp4(ip4a, ip4bc, 137, 137, nbq)
	add("nbns-query", fq, offq, 2, 3, 4, 5, 12)
	// ---- SSDP
	ssdp := func(name string, text string) {
		f, off := udp4(ip4a, netip.MustParseAddr("239.255.255.250"), 40000, 1900, []byte(strings.ReplaceAll(text, "\n", "\r\n")))
		add(name, f, off)
	}
	ssdp("ssdp-alive", "NOTIFY * HTTP/1.1\nHOST: 239.255.255.250:1900\nCACHE-CONTROL: max-age=1800\nLOCATION: http://192.168.0.10:1400/xml/device_description.xml\nNT: upnp:rootdevice\nNTS: ssdp:alive\nSERVER: Linux UPnP/1.0 Sonos/63.2\nUSN: uuid:RINCON_1::upnp:rootdevice\n\n")
	ssdp("ssdp-alive-odd-cache", "NOTIFY * HTTP/1.1\nHOST: 239.255.255.250:1900\nCACHE-CONTROL: x=max-age\nNTS: ssdp:alive\n\n")
	ssdp("ssdp-alive-cache3", "NOTIFY * HTTP/1.1\nHOST: 239.255.255.250:1900\nCACHE-CONTROL: max-age=10=max-age\nNTS: ssdp:alive\n\n")
	ssdp("ssdp-byebye", "NOTIFY * HTTP/1.1\nHOST: 239.255.255.250:1900\nNT: upnp:rootdevice\nNTS: ssdp:byebye\nUSN: uuid:x\n\n")
	ssdp("ssdp-msearch", "M-SEARCH * HTTP/1.1\nHOST: 239.255.255.250:1900\nMAN: \"ssdp:discover\"\nMX: 1\nST: ssdp:all\nUSER-AGENT: Google Chrome/92.0 Windows\n\n")
	ssdp("ssdp-response", "HTTP/1.1 200 OK\nCACHE-CONTROL: max-age=1800\nLOCATION: http://192.168.0.10/desc.xml\nST: upnp:rootdevice\nUSN: uuid:x\n\n")
	ssdp("ssdp-response-404", "HTTP/1.1 404 Not Found\n\n")
	// ---- 802.3 / LLC
	llc := func(name string, body []byte) {
		f := refnet.Eth([]byte{0x01, 0x80, 0xc2, 0, 0, 0}, env.MAC1, uint16(len(body)), body)
		add(name, f, 14, 0, 1, 2)
	}
	llc("llc-stp", append([]byte{0x42, 0x42, 0x03}, pat(35, 1)...))
	llc("llc-snap", append([]byte{0xaa, 0xaa, 0x03, 0, 0, 0x0c, 0x20, 0x00}, pat(30, 2)...))
	llc("llc-ipx", append([]byte{0xe0, 0xe0, 0x03}, pat(30, 3)...))
	llc("llc-other-iframe", append([]byte{0x10, 0x10, 0x00, 0x00}, pat(20, 4)...))
	llc("llc-3bytes", []byte{0x10, 0x10, 0x00})
	return m
}

type c08Env struct {
	s   *packet.Session
	arp *arp.Handler
	h4  *icmp.Handler4
	h6  *icmp.Handler6
	d   *dhcp4.Handler
	n   *dns.DNSHandler
	// the last frame each processor handled, and the one the processor of the current frame handled before it
	last map[string][]byte
	prev []byte
}

func newC08Env() *c08Env {
	concReset()
	vfs.Reset()
	e := &c08Env{}
	e.s, _ = env.NewSession(env.DefaultNIC(), packet.Config{})
	e.s.Conn.(*env.Conn).Safe = true
	e.s.Conn.(*env.Conn).Discard = true
	e.arp, _ = arp.New(e.s)
	e.h4, _ = icmp.New4(e.s)
	e.h6, _ = icmp.New6(e.s)
	e.d, _ = dhcp4.Config{Mode: dhcp4.ModeSecondaryServer, NetfilterIP: netip.MustParsePrefix("192.168.0.129/25"), DNSServer: ip4rtr, LeaseFilename: ""}.New(e.s)
	e.n = dns.VerifNew(e.s)
	e.arp.StartHunt(packet.Addr{MAC: env.MAC1, IP: ip4a})
	e.s.SetDHCPv4IPOffer(env.MAC1, ip4b, packet.NameEntry{})
	return e
}

func (e *c08Env) close() {
	e.arp.Close()
	e.h6.Close()
	e.d.Close()
	e.s.Close()
}

type c08Replay struct {
	Kind  string `json:"kind"` // frame | decoder
	Frame string `json:"frame"`
	Name  string `json:"name,omitempty"`
	Prev  string `json:"prev,omitempty"` // frame: the frame the same processor handled just before (state left behind by it)
}

// dispatch parses the frame and hands it to the processor selected by its PayloadID, as the packet loop does.
func (e *c08Env) dispatch(f []byte) (accepted bool, handler string, panicked string) {
	defer func() {
		vsched.InlineGo = false
		if r := recover(); r != nil {
			panicked = fmt.Sprintf("%v @%s", r, panicSite())
		}
	}()
	vsched.InlineGo = true
	vfuel.Set(60_000)
	icmp.VerifReset()
	frame, err := e.s.Parse(f)
	if err != nil {
		return false, "", ""
	}
	if frame.PayloadID == packet.PayloadDHCP4 {
		vfuel.Set(2_000_000) // a DISCOVER triggers a burst of 256 encoded packets
	}
	switch frame.PayloadID {
	case packet.PayloadARP:
		handler = "arp.ProcessPacket"
		e.remember(handler, f)
		e.arp.ProcessPacket(frame)
	case packet.PayloadDHCP4:
		handler = "dhcp4.ProcessPacket"
		e.remember(handler, f)
		e.d.ProcessPacket(frame)
	case packet.PayloadICMP4:
		handler = "icmp4.ProcessPacket"
		e.remember(handler, f)
		e.h4.ProcessPacket(frame)
	case packet.PayloadICMP6:
		handler = "icmp6.ProcessPacket"
		e.remember(handler, f)
		e.h6.ProcessPacket(frame)
	case packet.PayloadDNS:
		handler = "dns.ProcessDNS"
		e.remember(handler, f)
		e.n.ProcessDNS(frame)
	case packet.PayloadMDNS, packet.PayloadLLMNR:
		handler = "dns.ProcessMDNS"
		e.remember(handler, f)
		e.n = dns.VerifNew(e.s) // the response cache keyed by (MAC, id) would hide every later variant of the message
		e.n.ProcessMDNS(frame)
	case packet.PayloadNBNS:
		handler = "dns.ProcessNBNS"
		e.remember(handler, f)
		e.n.ProcessNBNS(frame.Host, frame.Ether(), frame.Payload())
	case packet.PayloadSSDP:
		handler = "dns.ProcessSSDP"
		e.remember(handler, f)
		e.n.ProcessSSDP(frame.Host, frame.Ether(), frame.Payload())
	case packet.Payload8023:
		handler = "Process8023Frame"
		e.remember(handler, f)
		packet.Process8023Frame(frame, 0)
	default:
		return true, "", ""
	}
	e.s.Notify(frame)
	return true, handler, ""
}

// remember records f as the last frame of its processor and exposes the previous one in e.prev.
func (e *c08Env) remember(handler string, f []byte) {
	if e.last == nil {
		e.last = map[string][]byte{}
	}
	e.prev = e.last[handler]
	e.last[handler] = append([]byte(nil), f...)
}

// decoders runs the exported payload-level decoders directly on a byte string.
func c08Decoders(b []byte) (panicked string, which string) {
	try := func(name string, f func()) {
		if panicked != "" {
			return
		}
		defer func() {
			if r := recover(); r != nil {
				panicked = fmt.Sprintf("%v @%s", r, panicSite())
				which = name
			}
		}()
		vfuel.Set(20_000)
		f()
	}
	// the decoders are handed the byte string as it is (no IsValid gate): the statement quantifies over every byte
	// string, and every one of them reports malformed input through its error (or an empty result)
	try("DecodeQuestion", func() {
		d := packet.DNS(b)
		buf := make([]byte, 0, 64)
		_, idx, err := packet.DecodeQuestion(d, 12, buf)
		if err == nil {
			e := packet.NewDNSEntry()
			e.DecodeAnswers(d, idx, buf)
		}
	})
	try("DNSEntry.DecodeAnswers", func() {
		e := packet.NewDNSEntry()
		e.DecodeAnswers(packet.DNS(b), 12, make([]byte, 0, 64))
	})
	try("ICMP6RouterAdvertisement.Options", func() { packet.ICMP6RouterAdvertisement(b).Options() })
	try("ICMP6RouterSolicitation.Options", func() { packet.ICMP6RouterSolicitation(b).Options() })
	try("ParseHopByHopExtensions", func() { packet.HopByHopExtensionHeader(b).ParseHopByHopExtensions() })
	try("DHCP4.ParseOptions", func() { packet.DHCP4(b).ParseOptions() })
	try("LLDP", func() {
		v := packet.LLDP(b)
		for _, t := range []int{0, 1, 2, 3, 4, 5, 6, 7, 8, 127} {
			v.GetPDU(t)
		}
		if v.IsValid() == nil {
			v.ChassisID()
			v.PortID()
			_ = v.String()
		}
	})
	return
}

var c08Alphabet = []byte{0x00, 0x01, 0x20, 0x21, 0x7f, 0x80, 0xc0, 0xff}

func c08One(c *core.Ctx, e **c08Env, class string, f []byte) {
	if c08Violations >= 40 {
		return
	}
	c.Count("evaluations", 1)
	buf := make([]byte, len(f), packet.EthMaxSize)
	copy(buf, f)
	accepted, handler, panicked := (*e).dispatch(buf)
	if accepted && handler != "" {
		c.Count("dispatched", 1)
		c.Distinct(f)
	}
	if panicked != "" {
		kind := "handler-panic"
		if strings.Contains(panicked, "budget exhausted") {
			kind = "handler-nontermination"
		}
		site := panicked[strings.LastIndex(panicked, "@")+1:]
		rp := c08Replay{Kind: "frame", Frame: hex.EncodeToString(f), Name: class}
		if strings.Contains(panicked, "held forever") && (*e).prev != nil {
			rp.Prev = hex.EncodeToString((*e).prev) // the lock was leaked by the previous message of this processor
		}
		c.Violate(kind+"|"+site, fmt.Sprintf("%s: %s on a mutation of %s: %s frame=%x", handler, kind, class, panicked, trunc(f, 96)), rp)
		// the environment may hold a lock that the panic left locked: abandon it without closing
		*e = newC08Env()
		c08Violations++
		if strings.Contains(panicked, "held forever") {
			c08Violations = 40 // a leaked lock: every later message on that handler would wait for the backstop again
		}
	}
}

// c08Violations counts the violations of this worker: after 40 the remaining mutations are skipped (the check has
// failed anyway and spinning handlers make every further case expensive).
var c08Violations int

func c08Decoder(c *core.Ctx, class string, b []byte) {
	if c08Violations >= 40 {
		return
	}
	c.Count("evaluations", 1)
	c.Count("decoder_inputs", 1)
	if panicked, which := c08Decoders(b); panicked != "" {
		kind := "decoder-panic"
		if strings.Contains(panicked, "budget exhausted") {
			kind = "decoder-nontermination"
		}
		c.Violate(kind+"|"+which, fmt.Sprintf("%s: %s on a mutation of %s: %s input=%x", which, kind, class, panicked, trunc(b, 96)), c08Replay{Kind: "decoder", Frame: hex.EncodeToString(b), Name: class})
		c08Violations++
	}
}

func c08Run(c *core.Ctx, args []string) {
	c.Res.Level = "exploration"
	c.Res.Rule = "valid messages of every protocol (ARP x4, DHCP x6, ICMPv4 x6, ICMPv6/NDP x16 incl. every NDP option type and ICMPv6-in-IPv4, DNS responses incl. every record type x section x good/bad RDATA, mDNS/LLMNR x22, NBNS x5, SSDP x7, LLC x5) closed under: truncation at every offset; substitution of every payload byte by each of {00,01,20,21,7f,80,c0,ff}; all 256 values at the offsets marked as length/count/type/pointer fields (thorough: at every offset); all pairs of marked offsets over the alphabet; NDP option length 0..4 for every option type. Each frame goes through Parse and is dispatched by PayloadID to its processor; the payloads additionally go straight to the exported decoders. distinct non-trivial = distinct frames accepted by Parse and dispatched to a processor"
	c.Res.Assumptions = []string{"termination is observed through a deterministic loop-iteration budget of the instrumented packages plus a real-time hang backstop for code outside them (x/net dnsmessage, net/http)", "inputs outside the mutation closure are not explored"}
	e := newC08Env()
	msgs := c08Messages()
	unit := 0
	next := func() bool { unit++; return c.Mine(unit - 1) }
	for _, m := range msgs {
		if !next() {
			continue
		}
		if c08Violations >= 40 {
			c.Cap("stopped after 40 violations")
			break
		}
		c.Progress("msg " + m.name)
		c08One(c, &e, m.name, m.frame)
		payload := m.frame[m.off:]
		c08Decoder(c, m.name, payload)
		// (i) truncation at every offset
		for n := 0; n < len(m.frame); n++ {
			c08One(c, &e, m.name+"/trunc", m.frame[:n])
			if n >= m.off {
				c08Decoder(c, m.name+"/trunc", m.frame[m.off:n])
				// keep the lower layers consistent: shorten the IP/UDP length fields as well
				if g := fixLengths(m.frame[:n]); g != nil {
					c08One(c, &e, m.name+"/trunc-consistent", g)
				}
			}
		}
		if c08Violations >= 40 {
			continue
		}
		// (ii) substitution
		isMarked := map[int]bool{}
		for _, k := range m.marked {
			isMarked[k] = true
		}
		for i := 0; i < len(payload); i++ {
			vals := c08Alphabet
			if isMarked[i] || c.Thorough() {
				vals = nil
				for v := 0; v < 256; v++ {
					vals = append(vals, byte(v))
				}
			}
			for _, v := range vals {
				if payload[i] == v {
					continue
				}
				g := append([]byte(nil), m.frame...)
				g[m.off+i] = v
				c08One(c, &e, m.name+"/subst", g)
				c08Decoder(c, m.name+"/subst", g[m.off:])
			}
		}
		// (iii) pairs of marked fields
		for ai, a := range m.marked {
			for _, b := range m.marked[ai+1:] {
				if a >= len(payload) || b >= len(payload) {
					continue
				}
				for _, va := range c08Alphabet {
					for _, vb := range c08Alphabet {
						g := append([]byte(nil), m.frame...)
						g[m.off+a], g[m.off+b] = va, vb
						c08One(c, &e, m.name+"/pair", g)
						c08Decoder(c, m.name+"/pair", g[m.off:])
					}
				}
			}
		}
	}
	// (v) NDP option length 0..4 for every option type
	if next() {
		for typ := 0; typ < 40; typ++ {
			for l := 0; l <= 4; l++ {
				for _, body := range [][]byte{make([]byte, 40), pat(40, byte(typ))} {
					o := append([]byte{byte(typ), byte(l)}, body...)
					ra := raFrame(env.RouterMAC, env.RouterLLA, 0x40, 1800, o[:8*max(l, 1)])
					c08One(c, &e, "ndp-option-len", ra)
					c08Decoder(c, "ndp-option-len", ra[54:])
					ra2 := raFrame(env.RouterMAC, env.RouterLLA, 0x40, 1800, o)
					c08One(c, &e, "ndp-option-len", ra2)
				}
			}
		}
	}
	e.close()
	c.Sample(map[string]any{"message": "mdns-response-additional", "mutation": "byte 0 of the second additional record set to 0xc0"}, 8)
	c.Sample(map[string]any{"message": "nbns-name", "mutation": "truncated after 60 bytes with consistent IP/UDP lengths"}, 8)
}

// fixLengths rewrites the IPv4 total length / UDP length (or IPv6 payload length) of a truncated frame so that the
// lower layers accept it. Returns nil if the frame is not IP or too short.
func fixLengths(f []byte) []byte {
	if len(f) < 34 {
		return nil
	}
	g := append([]byte(nil), f...)
	switch {
	case g[12] == 0x08 && g[13] == 0x00:
		tot := len(g) - 14
		g[16], g[17] = byte(tot>>8), byte(tot)
		g[24], g[25] = 0, 0
		cs := refnet.Checksum1071(g[14:34])
		g[24], g[25] = byte(cs>>8), byte(cs)
		if g[23] == 17 && len(g) >= 42 {
			ul := len(g) - 34
			g[38], g[39] = byte(ul>>8), byte(ul)
		}
		return g
	case g[12] == 0x86 && g[13] == 0xdd && len(g) >= 54:
		pl := len(g) - 54
		g[18], g[19] = byte(pl>>8), byte(pl)
		return g
	}
	return nil
}

func c08Replayer(data []byte) string {
	var r c08Replay
	if jsonUnmarshal(data, &r) != nil {
		return ""
	}
	b, _ := hex.DecodeString(r.Frame)
	if r.Kind == "decoder" {
		p, which := c08Decoders(b)
		if p != "" {
			return which + ": " + p
		}
		return ""
	}
	e := newC08Env()
	if pb, _ := hex.DecodeString(r.Prev); len(pb) > 0 {
		pbuf := make([]byte, len(pb), packet.EthMaxSize)
		copy(pbuf, pb)
		e.dispatch(pbuf)
	}
	buf := make([]byte, len(b), packet.EthMaxSize)
	copy(buf, b)
	_, handler, panicked := e.dispatch(buf)
	if panicked != "" {
		return handler + ": " + panicked
	}
	return ""
}

func init() {
	Registry["C08"] = &Driver{
		Plan:   func(tier string) []core.Job { return shardJobs("handlers", 16, false, 1700) },
		Run:    c08Run,
		Replay: c08Replayer,
	}
}
