package props

import (
	"bytes"
	"fmt"
	"net"
	"net/netip"
	"strconv"
	"strings"
	"time"

	"harness/core"

	"github.com/irai/packet/fastlog"
)

// C20: log formatting is faithful and stays within its buffer.

const c20Prefix = "c20   :"

type c20Replay struct {
	Kind string   `json:"kind"`
	Args []string `json:"args"`
}

type capture struct{ buf bytes.Buffer }

func (w *capture) Write(p []byte) (int, error) { return w.buf.Write(p) }

var c20Logger = fastlog.New("c20")

// c20Apply applies one appender described by (kind, args) to a line.
func c20Apply(l *fastlog.Line, kind string, args []string) (want string, ok bool) {
	switch kind {
	case "uint8":
		v, _ := strconv.ParseUint(args[0], 10, 8)
		l.Uint8("n", uint8(v))
		return " n=" + strconv.FormatUint(v, 10), true
	case "uint8hex":
		v, _ := strconv.ParseUint(args[0], 10, 8)
		l.Uint8Hex("n", uint8(v))
		return fmt.Sprintf(" n=0x%02x", v), true
	case "uint16":
		v, _ := strconv.ParseUint(args[0], 10, 16)
		l.Uint16("n", uint16(v))
		return " n=" + strconv.FormatUint(v, 10), true
	case "uint16hex":
		v, _ := strconv.ParseUint(args[0], 10, 16)
		l.Uint16Hex("n", uint16(v))
		return fmt.Sprintf(" n=0x%04x", v), true
	case "uint32":
		v, _ := strconv.ParseUint(args[0], 10, 32)
		l.Uint32("n", uint32(v))
		return " n=" + strconv.FormatUint(v, 10), true
	case "int":
		v, _ := strconv.ParseInt(args[0], 10, 64)
		l.Int("n", int(v))
		return " n=" + strconv.FormatInt(v, 10), true
	case "bool":
		l.Bool("b", args[0] == "true")
		return " b=" + args[0], true
	case "duration":
		v, _ := strconv.ParseInt(args[0], 10, 64)
		l.Duration("d", time.Duration(v))
		return " d=" + time.Duration(v).String(), true
	case "string":
		l.String("s", args[0])
		return " s=\"" + args[0] + "\"", true
	case "mac":
		b := unhex(args[0])
		l.MAC("m", net.HardwareAddr(b))
		if len(b) == 6 {
			return " m=" + net.HardwareAddr(b).String(), true
		}
		return " m=nil", true
	case "ip":
		a, err := netip.ParseAddr(args[0])
		if err != nil {
			l.IP("ip", netip.Addr{})
			return " ip=nil", true
		}
		l.IP("ip", a)
		return " ip=" + a.String(), true
	case "ipslice":
		b := unhex(args[0])
		if len(b) == 0 {
			l.IPSlice("ip", nil)
			return " ip=nil", true
		}
		l.IPSlice("ip", net.IP(b))
		if len(b) == 4 || len(b) == 16 {
			return " ip=" + net.IP(b).String(), true
		}
		return " ip=nil", true
	case "label":
		l.Label(args[0])
		return " " + args[0], true
	}
	return "", false
}

func unhex(s string) []byte {
	b := make([]byte, len(s)/2)
	for i := range b {
		v, _ := strconv.ParseUint(s[2*i:2*i+2], 16, 8)
		b[i] = byte(v)
	}
	return b
}

func hexs(b []byte) string {
	const d = "0123456789abcdef"
	o := make([]byte, 0, 2*len(b))
	for _, x := range b {
		o = append(o, d[x>>4], d[x&15])
	}
	return string(o)
}

// c20One renders a sequence of appenders and compares with the concatenation of the reference renderings.
func c20One(c *core.Ctx, seq [][2]string) {
	c.Count("evaluations", 1)
	var want strings.Builder
	want.WriteString(c20Prefix)
	got, perr := func() (s string, perr any) {
		defer func() { perr = recover() }()
		l := c20Logger.Msg("")
		for _, a := range seq {
			w, _ := c20Apply(l, a[0], []string{a[1]})
			want.WriteString(w)
		}
		return l.ToString(), nil
	}()
	kinds := make([]string, len(seq))
	flat := []string{}
	for i, a := range seq {
		kinds[i] = a[0]
		flat = append(flat, a[0], a[1])
	}
	if perr != nil {
		c.Violate("fastlog-panic|"+strings.Join(kinds, ","), fmt.Sprintf("panic %v rendering %v", perr, seq), c20Replay{Kind: "seq", Args: flat})
		return
	}
	if want.Len() <= 2047 && got != want.String() {
		c.Violate("fastlog-render|"+strings.Join(kinds, ","), fmt.Sprintf("rendered %q want %q", got, want.String()), c20Replay{Kind: "seq", Args: flat})
	}
}

func c20Single(c *core.Ctx, kind, arg string, distinct bool) {
	c20One(c, [][2]string{{kind, arg}})
	if distinct {
		c.Count("distinct_extra", 1)
	}
}

// c20ArrayIP: element i of an IP array of kind "4" (IPv4), "6" (short IPv6 text) or "6long" (39 character IPv6 text).
func c20ArrayIP(elem string, i int) net.IP {
	switch elem {
	case "4":
		return net.IPv4(10, 0, byte(i>>8), byte(i))
	case "6long":
		return net.ParseIP(fmt.Sprintf("2001:4479:1e00:8202:1042:15ff:fee6:%x", 0x1000+i%0xe000))
	}
	return net.ParseIP(fmt.Sprintf("2001:db8::%x", i+1))
}

// c20Array checks the truncating appenders: kind in bytearray|stringarray|iparray; fill = index before the call.
func c20Array(c *core.Ctx, kind string, fill int, n int, elem string) {
	c.Count("evaluations", 1)
	c.Count("distinct_extra", 1)
	var out string
	var written int
	perr := func() (perr any) {
		defer func() { perr = recover() }()
		l := c20Logger.Msg("")
		if fill > 8 {
			l.Label(strings.Repeat("x", fill-8))
		}
		switch kind {
		case "bytearray":
			b := make([]byte, n)
			for i := range b {
				b[i] = byte(i*37 + 1)
			}
			l.ByteArray("a", b)
		case "stringarray":
			v := make([]string, n)
			for i := range v {
				v[i] = elem
			}
			l.StringArray("a", v)
		case "iparray":
			v := make([]net.IP, n)
			for i := range v {
				v[i] = c20ArrayIP(elem, i)
			}
			l.IPArray("a", v)
		}
		// render through Write (captures what is emitted) - ToString would free the same buffer
		w := &capture{}
		old := fastlog.DefaultIOWriter
		fastlog.DefaultIOWriter = w
		l.Write()
		fastlog.DefaultIOWriter = old
		out = w.buf.String()
		written = w.buf.Len()
		return nil
	}()
	rp := c20Replay{Kind: "array", Args: []string{kind, strconv.Itoa(fill), strconv.Itoa(n), elem}}
	class := "fit"
	if perr != nil {
		c.Violate("fastlog-array-panic|"+kind, fmt.Sprintf("panic %v: %s fill=%d n=%d elem=%q", perr, kind, fill, n, elem), rp)
		return
	}
	if written > 2048 {
		c.Violate("fastlog-array-overflow|"+kind, fmt.Sprintf("Write emitted %d bytes: %s fill=%d n=%d", written, kind, fill, n), rp)
		return
	}
	// when everything fits the rendering must be the natural one
	var want strings.Builder
	want.WriteString(c20Prefix)
	if fill > 8 {
		want.WriteString(" " + strings.Repeat("x", fill-8))
	}
	want.WriteString(" a=[")
	switch kind {
	case "bytearray":
		for i := 0; i < n; i++ {
			if i > 0 {
				want.WriteByte(' ')
			}
			fmt.Fprintf(&want, "%02x", byte(i*37+1))
		}
	case "stringarray":
		for i := 0; i < n; i++ {
			if i > 0 {
				want.WriteString(", ")
			}
			want.WriteString("\"" + elem + "\"")
		}
	case "iparray":
		for i := 0; i < n; i++ {
			if i > 0 {
				want.WriteString(", ")
			}
			want.WriteString(c20ArrayIP(elem, i).String())
		}
	}
	want.WriteString("]\n")
	// generous margin: only demand exact rendering when the text is well inside the buffer
	if want.Len()+64 < 2048 && fill >= 8 {
		// the separator convention of the array appenders is not part of the property: compare modulo ',' and ' '
		norm := func(x string) string { return strings.NewReplacer(",", "", " ", "").Replace(x) }
		if norm(out) != norm(want.String()) {
			c.Violate("fastlog-array-render|"+kind+"|"+elem, fmt.Sprintf("%s fill=%d n=%d rendered %q want %q", kind, fill, n, tailStr(out, 80), tailStr(want.String(), 80)), rp)
		}
	} else {
		class = "truncate"
	}
	c.Count("array_"+class, 1)
}

func tailStr(s string, n int) string {
	if len(s) > n {
		return "..." + s[len(s)-n:]
	}
	return s
}

func c20Run(c *core.Ctx, args []string) {
	c.Res.Level = "exploration"
	c.Res.Rule = "per field type, the whole value space or the stated boundary set (all uint8/uint16 values, uint32/int boundary sets, every MAC byte position x all 256 values x 3 backgrounds and wrong lengths, every IPv4 octet value and pair set, all 256 IPv6 zero/non-zero group layouts x group values over {1,0x10,0x100,0x1000,0xffff}, durations, strings); all sequences of <=3 appenders; array appenders for every starting fill 8..2047 x lengths; reference = strconv/fmt/net/netip/time renderers. Every enumerated case is a distinct (appender,value[,fill]) tuple and non-trivial (it renders at least one field)"
	c.Res.Assumptions = []string{"reference renderers: strconv, fmt, net.HardwareAddr.String, net.IP.String, netip.Addr.String, time.Duration.String", "array appenders: exact rendering is demanded only when the text ends at least 64 bytes before the buffer end; inside that margin only no-panic and <=2048 bytes emitted are demanded"}
	thorough := c.Thorough()
	unit := 0
	next := func() bool { unit++; return c.Mine(unit - 1) }
	// integers
	if next() {
		for v := 0; v < 256; v++ {
			c20Single(c, "uint8", strconv.Itoa(v), true)
			c20Single(c, "uint8hex", strconv.Itoa(v), true)
		}
	}
	for blk := 0; blk < 16; blk++ {
		if !next() {
			continue
		}
		for v := blk * 4096; v < (blk+1)*4096; v++ {
			c20Single(c, "uint16", strconv.Itoa(v), true)
			c20Single(c, "uint16hex", strconv.Itoa(v), true)
		}
	}
	if next() {
		var vals []uint64
		lim := uint64(1 << 16)
		if thorough {
			lim = 1 << 20
		}
		for v := uint64(0); v < lim; v++ {
			vals = append(vals, v)
		}
		p10 := uint64(1)
		for k := 0; k < 10; k++ {
			vals = append(vals, p10, p10-1, p10+1)
			p10 *= 10
		}
		for k := uint(0); k < 32; k++ {
			vals = append(vals, 1<<k, 1<<k-1, 1<<k+1)
		}
		vals = append(vals, 0xffffffff, 0xfffffffe, 4294967295)
		seen := map[uint64]bool{}
		for _, v := range vals {
			if v > 0xffffffff || seen[v] {
				continue
			}
			seen[v] = true
			c20Single(c, "uint32", strconv.FormatUint(v, 10), true)
		}
		ints := []int64{0, 1, -1, 9, 10, -10, 99, 100, 2147483647, -2147483648, 4294967296, 9223372036854775807, -9223372036854775808, 1000000007}
		p := int64(1)
		for k := 0; k < 18; k++ {
			ints = append(ints, p, -p, p-1, p+1)
			p *= 10
		}
		for _, v := range ints {
			c20Single(c, "int", strconv.FormatInt(v, 10), true)
		}
		c20Single(c, "bool", "true", true)
		c20Single(c, "bool", "false", true)
		for _, d := range []int64{0, 1, 999, 1000, 1001, 999999, 1000000, 1500000, 999999999, 1000000000, 59999999999, 60000000000, 3599999999999, 3600000000000, 3600000000001, 86400000000000, -1, -1000000000, 9223372036854775807} {
			c20Single(c, "duration", strconv.FormatInt(d, 10), true)
		}
		for _, s := range []string{"", "a", "hello world", strings.Repeat("y", 100), "q\"uote", "new\nline"} {
			c20Single(c, "string", s, true)
		}
	}
	// MAC: each position x all values x 3 backgrounds, wrong lengths
	if next() {
		for _, bg := range []byte{0x00, 0xff, 0x5a} {
			for pos := 0; pos < 6; pos++ {
				for v := 0; v < 256; v++ {
					m := []byte{bg, bg, bg, bg, bg, bg}
					m[pos] = byte(v)
					c20Single(c, "mac", hexs(m), true)
				}
			}
		}
		for n := 0; n <= 8; n++ {
			if n == 6 {
				continue
			}
			c20Single(c, "mac", hexs(make([]byte, n)), true)
		}
	}
	// IPv4 through both appenders
	if next() {
		for pos := 0; pos < 4; pos++ {
			for v := 0; v < 256; v++ {
				ip := []byte{10, 20, 30, 40}
				ip[pos] = byte(v)
				c20Single(c, "ip", net.IP(ip).String(), true)
				c20Single(c, "ipslice", hexs(ip), true)
				c20Single(c, "ipslice", hexs(net.IP(ip).To16()), true)
			}
		}
		set := []byte{0, 1, 9, 10, 99, 100, 255}
		for _, a := range set {
			for _, b := range set {
				for _, d := range set {
					for _, e := range set {
						ip := []byte{a, b, d, e}
						c20Single(c, "ip", net.IP(ip).String(), true)
						c20Single(c, "ipslice", hexs(ip), true)
					}
				}
			}
		}
		c20Single(c, "ip", "invalid", true)
		c20Single(c, "ipslice", "", true)
		for _, n := range []int{1, 3, 5, 15, 17} {
			c20Single(c, "ipslice", hexs(make([]byte, n)), true)
		}
	}
	// IPv6 layouts: 256 zero/non-zero masks x group value assignments
	groupVals := []uint16{1, 0x10, 0x100, 0x1000, 0xffff}
	for mask := 0; mask < 256; mask++ {
		if !next() {
			continue
		}
		var nz []int
		for g := 0; g < 8; g++ {
			if mask&(1<<g) != 0 {
				nz = append(nz, g)
			}
		}
		// all assignments over groupVals for quick when <=4 non zero groups, else a diagonal family; thorough: all
		total := 1
		for range nz {
			total *= len(groupVals)
		}
		limit := total
		if !thorough && len(nz) > 4 {
			limit = 0
		}
		emit := func(assign []uint16) {
			var ip [16]byte
			for k, g := range nz {
				ip[2*g] = byte(assign[k] >> 8)
				ip[2*g+1] = byte(assign[k])
			}
			a := netip.AddrFrom16(ip)
			c20Single(c, "ip", a.String(), true)
			if a.Is4In6() {
				return // net.IP renders v4-mapped addresses as dotted quad; covered by the IPv4 block
			}
			c20Single(c, "ipslice", hexs(ip[:]), true)
		}
		if limit > 0 {
			assign := make([]uint16, len(nz))
			for n := 0; n < total; n++ {
				x := n
				for k := range assign {
					assign[k] = groupVals[x%len(groupVals)]
					x /= len(groupVals)
				}
				emit(assign)
			}
		} else {
			// diagonal family: every group takes each value while the others cycle
			assign := make([]uint16, len(nz))
			for k := range nz {
				for vi, v := range groupVals {
					for j := range assign {
						assign[j] = groupVals[(vi+j)%len(groupVals)]
					}
					assign[k] = v
					emit(assign)
				}
			}
		}
	}
	// composition: all sequences of <=3 appenders
	reps := [][2]string{{"uint8", "200"}, {"uint8hex", "171"}, {"uint16", "65535"}, {"uint16hex", "43981"}, {"uint32", "4000000000"}, {"int", "-12345"},
		{"bool", "true"}, {"duration", "1500000000"}, {"string", "text"}, {"mac", "02aabbccddee"}, {"ip", "192.168.0.1"}, {"ip", "2001:db8::1"},
		{"ipslice", "c0a80001"}, {"ipslice", "20010db8000000000000000000000001"}, {"label", "lbl"}}
	for i, a := range reps {
		if !next() {
			continue
		}
		c20One(c, [][2]string{a})
		for _, b := range reps {
			c20One(c, [][2]string{a, b})
			c.Count("distinct_extra", 1)
			for _, d := range reps {
				c20One(c, [][2]string{a, b, d})
				c.Count("distinct_extra", 1)
			}
		}
		_ = i
	}
	// arrays: every starting fill x lengths
	for fill := 8; fill <= 2047; fill++ {
		if !next() {
			continue
		}
		if !thorough && fill > 64 && fill < 1900 && fill%8 != 0 {
			continue
		}
		rem := 2048 - fill
		for _, n := range []int{0, 1, 2, rem/3 - 2, rem/3 - 1, rem / 3, rem/3 + 1, 700, 5000} {
			if n < 0 {
				continue
			}
			c20Array(c, "bytearray", fill, n, "")
		}
		for _, n := range []int{0, 1, 2, 3, rem / 9, rem/9 + 1, 700} {
			c20Array(c, "stringarray", fill, n, "elem5")
		}
		c20Array(c, "stringarray", fill, 3, strings.Repeat("z", 700))
		c20Array(c, "stringarray", fill, 1, strings.Repeat("z", 5000))
		for _, n := range []int{0, 1, 2, 3, rem / 16, 200} {
			c20Array(c, "iparray", fill, n, "4")
			c20Array(c, "iparray", fill, n, "6")
		}
		for _, n := range []int{1, 2, rem/41 - 1, rem / 41, rem/41 + 1, 100} {
			if n > 0 {
				c20Array(c, "iparray", fill, n, "6long")
			}
		}
	}
	c.Sample(map[string]any{"appender": "ipslice", "value": "2001:db8:0:0:1:1:1:1"}, 8)
	c.Sample(map[string]any{"appender": "bytearray", "fill": 2040, "n": 5000}, 8)
	c.Sample(map[string]any{"sequence": []string{"uint16hex=43981", "mac=02aabbccddee", "ip=2001:db8::1"}}, 8)
}

func c20Replayer(data []byte) string {
	var r c20Replay
	if jsonUnmarshal(data, &r) != nil {
		return ""
	}
	c := core.NewCtx("C20", "quick", "replay", 0, 1, "")
	switch r.Kind {
	case "seq":
		var seq [][2]string
		for i := 0; i+1 < len(r.Args); i += 2 {
			seq = append(seq, [2]string{r.Args[i], r.Args[i+1]})
		}
		c20One(c, seq)
	case "array":
		fill, _ := strconv.Atoi(r.Args[1])
		n, _ := strconv.Atoi(r.Args[2])
		c20Array(c, r.Args[0], fill, n, r.Args[3])
	}
	if len(c.Res.Violations) > 0 {
		return c.Res.Violations[0].What
	}
	return ""
}

func init() {
	Registry["C20"] = &Driver{
		Plan:   func(tier string) []core.Job { return shardJobs("log", 16, false, 1200) },
		Run:    c20Run,
		Replay: c20Replayer,
	}
}
