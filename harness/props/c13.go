package props

import (
	"bytes"
	"fmt"
	"net/netip"
	"strings"
	"time"

	"harness/core"
	"harness/env"
	"harness/refnet"

	"github.com/irai/packet"
	arp "github.com/irai/packet/handlers/arp_spoofer"
	"github.com/irai/packet/verifshim/vsched"
	"github.com/irai/packet/verifshim/vtime"
)

// C13: ARP spoofing is confined to hunted hosts and undone on StopHunt.

var (
	c13IPc   = netip.MustParseAddr("192.168.0.12")
	c13Tgt   = []packet.Addr{{MAC: env.MAC1, IP: ip4a}, {MAC: env.MAC2, IP: ip4b}}
	apiNames = []string{"StartHunt(t1)", "StartHunt(t2)", "StopHunt(t1)", "StopHunt(t2)", "Close", "StartHunt(t1 under another IP)", "StartHunt(t2 under t1's IP)"}
	pktNames = []string{"req(t1->router)", "req(t1->other)", "req(t3->router)", "probe(m3,offer!=target)", "probe(m3,offer==target)", "probe(m3,offlan)", "probe(t2,nooffer)", "announce(t1)", "reply(t1)", "req(m3 with t1's ip->router)", "announce(m3 claims the router's ip)"}
)

// huntEvent is one entry of the totally ordered per-execution log.
type huntEvent struct {
	kind string // api-call api-ret deliver
	op   int
	t    int64
	seq  int // number of frames emitted before this event
}

type huntLog struct{ ev []huntEvent }

//go:norace
func (l *huntLog) add(e huntEvent) { l.ev = append(l.ev, e) }

func c13Packet(k int) []byte {
	zero := make([]byte, 6)
	switch k {
	case 0:
		return refnet.Eth(bcast, env.MAC1, 0x0806, refnet.ARP(1, env.MAC1, ip4a, zero, ip4rtr))
	case 1:
		return refnet.Eth(bcast, env.MAC1, 0x0806, refnet.ARP(1, env.MAC1, ip4a, zero, ip4b))
	case 2:
		return refnet.Eth(bcast, env.MAC3, 0x0806, refnet.ARP(1, env.MAC3, c13IPc, zero, ip4rtr))
	case 3:
		return refnet.Eth(bcast, env.MAC3, 0x0806, refnet.ARP(1, env.MAC3, ip4zero, zero, ip4a))
	case 4:
		return refnet.Eth(bcast, env.MAC3, 0x0806, refnet.ARP(1, env.MAC3, ip4zero, zero, c13IPc))
	case 5:
		return refnet.Eth(bcast, env.MAC3, 0x0806, refnet.ARP(1, env.MAC3, ip4zero, zero, ip4off))
	case 6:
		return refnet.Eth(bcast, env.MAC2, 0x0806, refnet.ARP(1, env.MAC2, ip4zero, zero, ip4a))
	case 7:
		return refnet.Eth(bcast, env.MAC1, 0x0806, refnet.ARP(1, env.MAC1, ip4a, bcast, ip4a))
	case 8:
		return refnet.Eth(env.HostMAC, env.MAC1, 0x0806, refnet.ARP(2, env.MAC1, ip4a, env.HostMAC, ip4host))
	case 9:
		// a host that is NOT hunted asks for the router using the IP address of the hunted host t1
		return refnet.Eth(bcast, env.MAC3, 0x0806, refnet.ARP(1, env.MAC3, ip4a, zero, ip4rtr))
	case 10:
		// a host that is NOT hunted announces itself under the ROUTER's address (misconfigured or hostile station): what
		// the session tracks for that address must not change what StopHunt restores
		return refnet.Eth(bcast, env.MAC3, 0x0806, refnet.ARP(1, env.MAC3, ip4rtr, bcast, ip4rtr))
	}
	return nil
}

const c13Cycle = 6 * time.Second

// scribble overwrites a receive buffer after the packet loop is done with it (harness state, shared with goroutines the
// library may have started on purpose or by mistake: hence norace; the C09 harnesses keep private buffers instead).
//
//go:norace
func scribble(b []byte) {
	for i := range b {
		b[i] = 0xa5
	}
}

func c13Scenario(api []int, pkts []int) *concScenario {
	var an, pn []string
	for _, a := range api {
		an = append(an, apiNames[a])
	}
	for _, p := range pkts {
		pn = append(pn, pktNames[p])
	}
	name := "arp[" + strings.Join(an, ",") + "|" + strings.Join(pn, ",") + "]"
	return &concScenario{name: name, maxClock: 16,
		body: func(x *concExec) {
			concReset()
			s, conn := concSession()
			x.data["session"] = s
			log := &huntLog{}
			x.data["log"] = log
			h, err := arp.New(s)
			if err != nil {
				x.fail("setup", err.Error())
				return
			}
			s.SetDHCPv4IPOffer(env.MAC3, c13IPc, packet.NameEntry{}) // MAC3 holds an outstanding offer for c
			parseNotify(s, frame4(env.MAC2, ip4b))                   // t2 is a known station with an address (and no outstanding offer)
			conn.Take()
			start := vsched.NowNanos()
			x.data["start"] = start
			threads(
				func() {
					for _, op := range api {
						log.add(huntEvent{kind: "api-call", op: op, t: vsched.NowNanos(), seq: conn.Len()})
						switch op {
						case 5: // the MAC of t1 with another address: StartHunt is idempotent per MAC
							h.StartHunt(packet.Addr{MAC: env.MAC1, IP: c13IPc})
						case 6: // another MAC under the address of t1 (the address moved): the two hunts must stay independent
							h.StartHunt(packet.Addr{MAC: env.MAC2, IP: ip4a})
						case 0, 1:
							h.StartHunt(c13Tgt[op])
						case 2, 3:
							h.StopHunt(c13Tgt[op-2])
						case 4:
							h.Close()
						}
						log.add(huntEvent{kind: "api-ret", op: op, t: vsched.NowNanos(), seq: conn.Len()})
					}
				},
				func() {
					rx := make([]byte, 256) // the receive buffer of a zero-copy packet loop
					for _, p := range pkts {
						n := copy(rx, c13Packet(p))
						f, err := s.Parse(rx[:n])
						if err != nil {
							x.fail("setup", "packet rejected by Parse: "+err.Error())
							return
						}
						log.add(huntEvent{kind: "deliver", op: p, t: vsched.NowNanos(), seq: conn.Len()})
						h.ProcessPacket(f)
						s.Notify(f)
						scribble(rx) // the next read overwrites the buffer
					}
				},
			)
			// give every loop two full cycles, then close the handler and give them two more
			vtime.Sleep(2*c13Cycle + time.Second)
			log.add(huntEvent{kind: "api-call", op: 4, t: vsched.NowNanos(), seq: conn.Len()})
			h.Close()
			log.add(huntEvent{kind: "api-ret", op: 4, t: vsched.NowNanos(), seq: conn.Len()})
			x.data["finalclose"] = conn.Len()
			x.data["finalcloseT"] = vsched.NowNanos()
			vtime.Sleep(2*c13Cycle + time.Second)
			x.data["completed"] = true
			s.Close()
			vsched.WaitIdle()
		},
		post: func(x *concExec) { c13Monitor(x, api) },
	}
}

// c13Monitor is the linear-time monitor over emitted ARP frames and API/packet events.
func c13Monitor(x *concExec, api []int) {
	s, _ := x.data["session"].(*packet.Session)
	log, _ := x.data["log"].(*huntLog)
	if s == nil || log == nil {
		return
	}
	conn := s.Conn.(*env.Conn)
	type fr struct {
		info refnet.SentInfo
		t    int64
		idx  int
	}
	var frames []fr
	for i, f := range conn.Frames {
		info := refnet.DecodeSent(f.Data, env.HostMAC)
		for _, p := range info.Problems {
			x.fail("frame", fmt.Sprintf("emitted %s frame malformed: %s", info.Kind, p))
		}
		if info.Kind == "arp" {
			frames = append(frames, fr{info, f.Time, i})
		}
	}
	macOf := func(m [6]byte) int {
		for i, t := range c13Tgt {
			if bytes.Equal(m[:], t.MAC) {
				return i
			}
		}
		return -1
	}
	// maybeHunted reports whether target k may be in the hunt list at some point of the frame-index interval [from,to]
	maybeHunted := func(k int, from, to int) bool {
		in := false
		open := -1 // frame seq at which the current maybe-hunted interval started
		for _, e := range log.ev {
			if e.kind == "api-call" && startsHunt(e.op, k) { // StartHunt(k) called
				if !in {
					in, open = true, e.seq
				}
			}
			if e.kind == "api-ret" && (e.op == k+2 || e.op == 4) && in { // StopHunt(k) / Close returned
				if e.op == k+2 {
					// interval [open, e.seq] ; frames with index < e.seq were emitted before the return
					if open <= to && e.seq >= from {
						return true
					}
					in = false
				}
			}
		}
		return in && open <= to
	}
	closedAt := -1 // frame seq at the return of the first Close
	for _, e := range log.ev {
		if e.kind == "api-ret" && e.op == 4 && closedAt < 0 {
			closedAt = e.seq
		}
	}
	starts := [2]int{}
	for _, e := range log.ev {
		if e.kind == "api-call" && e.op < 2 {
			starts[e.op]++
		}
		if e.kind == "api-call" && e.op == 5 {
			starts[0]++
		}
		if e.kind == "api-call" && e.op == 6 {
			starts[1]++
		}
	}
	var obs []string
	forgedAnn := [2][]fr{}
	for _, f := range frames {
		forged := f.info.ARPSpa == ip4rtr && bytes.Equal(f.info.ARPSha[:], env.HostMAC)
		k := macOf(f.info.DstMAC)
		switch {
		case forged && f.info.ARPOp == 2:
			obs = append(obs, fmt.Sprintf("forged-reply->%x", f.info.DstMAC[5]))
			// must answer a request for the router from a host that may be hunted between delivery and emission
			d := -1
			for _, e := range log.ev {
				if e.kind == "deliver" && e.op == 0 && e.seq <= f.idx {
					d = e.seq
				}
			}
			if k < 0 || d < 0 || !maybeHunted(k, d, f.idx) {
				x.fail("confinement", fmt.Sprintf("forged ARP reply (router %v is-at our MAC) sent to %x which is not hunted", ip4rtr, f.info.DstMAC))
			}
		case forged:
			obs = append(obs, fmt.Sprintf("forged-announce->%x", f.info.DstMAC[5]))
			if k < 0 || starts[k] == 0 {
				x.fail("confinement", fmt.Sprintf("forged ARP announcement sent to %x which was never hunted", f.info.DstMAC))
				continue
			}
			forgedAnn[k] = append(forgedAnn[k], f)
		case f.info.ARPOp == 2 && bytes.Equal(f.info.ARPSha[:], env.HostMAC):
			obs = append(obs, fmt.Sprintf("reject(%v)->%x", f.info.ARPSpa, f.info.DstMAC[5]))
			// probe reject: only to a prober that holds a different offer, for an on-LAN address
			okReject := bytes.Equal(f.info.DstMAC[:], env.MAC3) && f.info.ARPSpa == ip4a
			if !okReject {
				x.fail("probe-reject", fmt.Sprintf("probe reject for %v sent to %x although the prober holds no different offer or the address is not on the home LAN", f.info.ARPSpa, f.info.DstMAC))
			}
		case f.info.ARPSpa == ip4rtr && bytes.Equal(f.info.ARPSha[:], env.RouterMAC):
			obs = append(obs, fmt.Sprintf("corrective->%x", f.info.DstMAC[5]))
		default:
			obs = append(obs, "other-arp")
		}
	}
	completed, _ := x.data["completed"].(bool)
	// bounded-liveness clauses ("within one cycle") presuppose that runnable goroutines run before time passes; in
	// executions where the explorer advanced the clock past a runnable goroutine they are not evaluated
	timely := x.data["earlyClock"].(int) == 0
	var dbg strings.Builder
	for _, e := range log.ev {
		fmt.Fprintf(&dbg, "  log %s op=%d t=%v seq=%d\n", e.kind, e.op, time.Duration(e.t-x.data["start"].(int64)), e.seq)
	}
	for _, f := range frames {
		fmt.Fprintf(&dbg, "  frame idx=%d t=%v op=%d sha=%x spa=%v dst=%x\n", f.idx, time.Duration(f.t-x.data["start"].(int64)), f.info.ARPOp, f.info.ARPSha[4:], f.info.ARPSpa, f.info.DstMAC[4:])
	}
	x.data["debug"] = dbg.String()
	for k := 0; k < 2; k++ {
		// the last API operation on target k
		lastStop, lastStart := -1, -1
		var stopT int64
		closeBetween := false
		closedBeforeStop, closedSoFar := false, false
		for _, e := range log.ev {
			if e.kind == "api-call" && startsHunt(e.op, k) {
				lastStart = e.seq
				lastStop = -1
			}
			if e.kind == "api-ret" && e.op == k+2 && lastStart >= 0 {
				lastStop = e.seq
				stopT = e.t
				closeBetween = false
			}
			if e.kind == "api-call" && e.op == 4 && lastStop >= 0 && e.t < stopT+int64(c13Cycle+time.Second) {
				closeBetween = true
			}
			if e.kind == "api-call" && e.op == 4 {
				closedSoFar = true
			}
			if e.kind == "api-ret" && e.op == k+2 {
				closedBeforeStop = closedSoFar // the handler was already closed: Close ends the loops, nothing is sent afterwards
			}
		}
		// (d) StartHunt is idempotent per MAC: consecutive StartHunt calls create one loop (at most one announcement
		// per cycle): within one cycle length after the first call at most 2 announcements (t and t+6s)
		if timely && starts[k] >= 2 && lastStop < 0 {
			first := int64(-1)
			n := 0
			for _, f := range forgedAnn[k] {
				if first < 0 {
					first = f.t
				}
				if f.t < first+int64(c13Cycle+time.Second) {
					n++
				}
			}
			stopsBefore := false
			for _, e := range log.ev {
				if e.kind == "api-call" && e.op == k+2 {
					stopsBefore = true
				}
			}
			if !stopsBefore && n > 2 {
				x.fail("idempotence", fmt.Sprintf("%d forged announcements to t%d within one cycle after repeated StartHunt: more than one loop is running", n, k+1))
			}
		}
		if lastStop >= 0 {
			// (c) undone on StopHunt: at most one in-flight forged announcement per loop after StopHunt returned
			after := 0
			var lastForged int = -1
			for _, f := range forgedAnn[k] {
				if f.idx >= lastStop {
					after++
					lastForged = f.idx
				}
			}
			if after > starts[k] {
				x.fail("undo", fmt.Sprintf("%d forged announcements sent to t%d after StopHunt returned (only %d loop(s) could have one in flight)", after, k+1, starts[k]))
			}
			corrective := -1
			for _, f := range frames {
				if f.info.ARPSpa == ip4rtr && bytes.Equal(f.info.ARPSha[:], env.RouterMAC) && bytes.Equal(f.info.DstMAC[:], c13Tgt[k].MAC) && f.idx >= lastStart {
					if corrective < 0 || f.idx < corrective {
						corrective = f.idx
					}
					if timely && f.t > stopT+int64(c13Cycle) {
						x.fail("undo-late", fmt.Sprintf("the ARP packet restoring the router's MAC reached t%d %v after StopHunt (more than one cycle)", k+1, time.Duration(f.t-stopT)))
					}
				}
			}
			if timely && completed && !closeBetween && !closedBeforeStop && corrective < 0 {
				x.fail("undo-missing", fmt.Sprintf("no ARP packet restoring the router's real MAC was sent to t%d within two cycles after StopHunt", k+1))
			}
			if corrective >= 0 && lastForged > corrective && starts[k] == 1 {
				x.fail("undo", fmt.Sprintf("a forged announcement was sent to t%d after the corrective packet", k+1))
			}
		}
		// (e) Close stops all loops within one cycle
		if fc, ok := x.data["finalclose"].(int); ok && completed && timely {
			t0 := x.data["finalcloseT"].(int64)
			for _, f := range forgedAnn[k] {
				if f.idx >= fc && f.t > t0+int64(c13Cycle) {
					x.fail("close", fmt.Sprintf("forged announcement to t%d %v after Close", k+1, time.Duration(f.t-t0)))
				}
			}
		}
	}
	if closedAt >= 0 {
		obs = append(obs, "closed")
	}
	x.obs = append(x.obs, strings.Join(obs, " "))
}

// startsHunt: does API operation op start a hunt of target k?
func startsHunt(op, k int) bool { return op == k || (op == 5 && k == 0) || (op == 6 && k == 1) }

// c13Extra: histories of length 3 that both tiers explore. Two hunted targets, one of them stopped / everything closed:
// the loops must not depend on each other, also when the two MACs were hunted under the same address.
func c13Extra() [][]int {
	return [][]int{{0, 1, 2}, {0, 1, 3}, {0, 1, 4}, {1, 0, 2}, {0, 6, 2}, {0, 6, 3}, {6, 0, 2}, {6, 0, 3}, {0, 6, 4}}
}

func c13Histories(maxLen int) [][]int {
	out := [][]int{{}}
	var rec func(cur []int)
	rec = func(cur []int) {
		if len(cur) > 0 {
			out = append(out, append([]int(nil), cur...))
		}
		if len(cur) == maxLen {
			return
		}
		for op := 0; op < 5; op++ {
			rec(append(cur, op))
		}
		if len(cur) >= 1 && cur[0] == 0 && len(cur) < maxLen {
			rec(append(cur, 5)) // after StartHunt(t1): StartHunt of the same MAC under another address
		}
	}
	rec(nil)
	return out
}

func c13Scenarios(apiLen, pktLen int) []*concScenario {
	var l []*concScenario
	pk := [][]int{{}}
	if pktLen >= 1 {
		for p := range pktNames {
			pk = append(pk, []int{p})
		}
	}
	if pktLen >= 2 {
		for p := range pktNames {
			for q := range pktNames {
				pk = append(pk, []int{p, q})
			}
		}
	}
	for _, a := range c13Histories(apiLen) {
		for _, p := range pk {
			l = append(l, c13Scenario(a, p))
		}
	}
	return l
}

func c13Run(c *core.Ctx, args []string) {
	c.Res.Level = "model_checking"
	c.Res.Rule = "outer enumeration: every API history of length <=2 (thorough <=3) over {StartHunt(t1), StartHunt(t2), StopHunt(t1), StopHunt(t2), Close, StartHunt(t1 under another IP)} plus nine histories of length 3 with two hunted targets (also: two MACs hunted under ONE address) on the caller thread x every packet sequence of length <=1 (thorough: <=2 for API length <=2) over 11 ARP packets (requests from hunted and non-hunted hosts, probes with/without/equal offers and off-LAN targets, announcement, reply, a station announcing itself under the router's address; t2 is a known station without offer) on the packet-loop thread; inner: stateless DFS over all schedules (threads, spoof loops, ticker firings in virtual time) up to the deviation bound (one more for the API histories of length <=2 without packets), followed by two spoof cycles, Close, and two more cycles. A linear-time monitor over the emitted ARP frames and the API call/return log checks confinement, probe-reject conditions, undo on StopHunt (corrective packet within one cycle, no forged packet afterwards), idempotent StartHunt and Close. distinct = distinct observation vectors"
	c.Res.Assumptions = []string{"one forged announcement per loop may still leave after StopHunt returned (the loop had passed its membership check): the property's 'no further' is read per loop cycle", "a StopHunt/StartHunt pair may leave two loops for one target (not constrained by the statement)", "time is virtual: 'within one cycle' is checked on the virtual clock"}
	apiLen, pktLen, bound := 2, 1, 1
	if c.Thorough() {
		apiLen, pktLen, bound = 3, 1, 2
	}
	scs := c13Scenarios(apiLen, pktLen)
	if c.Thorough() {
		scs = append(scs, c13Scenarios(2, 2)...)
	}
	for i, sc := range scs {
		if !c.Mine(i) {
			continue
		}
		if c.Deadline > 0 && time.Now().Unix() > c.Deadline-30 {
			c.Cap("time budget: scenario list not completed")
			break
		}
		sub := *c
		sub.Shard, sub.NShards = 0, 1
		exploreScenario(&sub, "C13", sc, bound)
		c.Count("scenarios", 1)
	}
	for i, api := range c13Extra() {
		if !c.Mine(i + 7) {
			continue
		}
		sub := *c
		sub.Shard, sub.NShards = 0, 1
		exploreScenario(&sub, "C13", c13Scenario(api, nil), bound)
		c.Count("scenarios", 1)
	}
	// one more deviation for the histories without packets (the races between StartHunt/StopHunt/Close and the loops)
	deep := c13Scenarios(2, 0)
	for i, sc := range deep {
		if !c.Mine(i + 5) {
			continue
		}
		if c.Deadline > 0 && time.Now().Unix() > c.Deadline-30 {
			c.Cap("time budget: deeper schedules not completed")
			break
		}
		sub := *c
		sub.Shard, sub.NShards = 0, 1
		exploreScenario(&sub, "C13", sc, bound+1)
		c.Count("scenarios_deeper", 1)
	}
	c.Res.Bound = fmt.Sprintf("API histories <= %d, packets <= %d, deviation bound %d (%d for the %d API histories of length <= 2 without packets), clock horizon 16 firings", apiLen, pktLen, bound, bound+1, len(deep))
	c.Res.Counters["states"] = int64(c.DistinctCount())
	c.Sample(map[string]any{"scenario": "arp[StartHunt(t1),StopHunt(t1)|req(t1->router)]", "schedule": []int{0, 0, 0, 1}}, 4)
}

func init() {
	Registry["C13"] = &Driver{
		Plan: func(tier string) []core.Job { return shardJobs("arp", 16, false, 1700) },
		Run:  c13Run,
		Replay: concReplayer(func() []*concScenario {
			l := append(c13Scenarios(3, 1), c13Scenarios(2, 2)...)
			for _, api := range c13Extra() {
				l = append(l, c13Scenario(api, nil))
			}
			return l
		}),
	}
}
