package props

import (
	"encoding/hex"
	"fmt"
	"net/netip"
	"sort"
	"strings"
	"time"

	"harness/core"
	"harness/env"
	"harness/refnet"

	"github.com/irai/packet"
	dns "github.com/irai/packet/handlers/dns_naming"
	"github.com/irai/packet/verifshim/vfuel"
	"golang.org/x/net/dns/dnsmessage"
)

// C17: DNS records and names decode as a reference decoder; merges are monotone.

type c17RR struct {
	Kind string // a aaaa cname ptr mx txt
	Name string // owner name (dotted, no trailing dot)
	Data string // address / target name
}

type c17Replay struct {
	Kind  string `json:"kind"` // dns | mdns | nbns | malformed | merge
	Hex   string `json:"hex"`
	QName string `json:"qname,omitempty"`
	Want  string `json:"want,omitempty"`
	Args  []int  `json:"args,omitempty"`
}

func mustName(s string) dnsmessage.Name {
	n, err := dnsmessage.NewName(s + ".")
	if err != nil {
		panic(err)
	}
	return n
}

// buildDNS builds a response with the independent builder. sections[i] in 0..2 places rr i in answer/authority/additional.
func buildDNS(qname string, qtype dnsmessage.Type, rrs []c17RR, sections []int, compress bool, response bool) ([]byte, error) {
	b := dnsmessage.NewBuilder(make([]byte, 0, 512), dnsmessage.Header{ID: 77, Response: response, RecursionAvailable: true})
	if compress {
		b.EnableCompression()
	}
	if err := b.StartQuestions(); err != nil {
		return nil, err
	}
	if qname != "" {
		if err := b.Question(dnsmessage.Question{Name: mustName(qname), Type: qtype, Class: dnsmessage.ClassINET}); err != nil {
			return nil, err
		}
	}
	for sec := 0; sec < 3; sec++ {
		switch sec {
		case 0:
			b.StartAnswers()
		case 1:
			b.StartAuthorities()
		case 2:
			b.StartAdditionals()
		}
		for i, rr := range rrs {
			if sections[i] != sec {
				continue
			}
			h := dnsmessage.ResourceHeader{Name: mustName(rr.Name), Class: dnsmessage.ClassINET, TTL: 300}
			var err error
			switch rr.Kind {
			case "a":
				err = b.AResource(h, dnsmessage.AResource{A: netip.MustParseAddr(rr.Data).As4()})
			case "aaaa":
				err = b.AAAAResource(h, dnsmessage.AAAAResource{AAAA: netip.MustParseAddr(rr.Data).As16()})
			case "cname":
				err = b.CNAMEResource(h, dnsmessage.CNAMEResource{CNAME: mustName(rr.Data)})
			case "ptr":
				err = b.PTRResource(h, dnsmessage.PTRResource{PTR: mustName(rr.Data)})
			case "mx":
				err = b.MXResource(h, dnsmessage.MXResource{Pref: 10, MX: mustName(rr.Data)})
			case "txt":
				err = b.TXTResource(h, dnsmessage.TXTResource{TXT: []string{rr.Data}})
			}
			if err != nil {
				return nil, err
			}
		}
	}
	return b.Finish()
}

func dnsFrame(payload []byte, sport, dport uint16, srcMAC []byte, src, dst netip.Addr) []byte {
	return refnet.Eth(env.HostMAC, srcMAC, 0x0800, refnet.IP4(src, dst, 17, refnet.UDP(sport, dport, payload), refnet.IP4Opt{}))
}

type c17Env struct {
	s *packet.Session
}

func (e *c17Env) session() *packet.Session {
	if e.s == nil {
		e.s, _ = env.NewSession(env.DefaultNIC(), packet.Config{})
	}
	return e.s
}

// expectedDNS renders the ground truth of a DNS response the way checkDNS renders the stored entry.
func expectedDNS(qname string, rrs []c17RR, sections []int) string {
	var a4, a6, cn, ptr []string
	seen4, seen6, seenC, seenP := map[string]bool{}, map[string]bool{}, map[string]bool{}, map[string]bool{}
	for i, rr := range rrs {
		if sections[i] != 0 {
			continue // only the answer section is recorded
		}
		switch rr.Kind {
		case "a":
			if !seen4[rr.Data] {
				seen4[rr.Data] = true
				a4 = append(a4, rr.Data+"<-"+rr.Name)
			}
		case "aaaa":
			ip := netip.MustParseAddr(rr.Data).String()
			if !seen6[ip] {
				seen6[ip] = true
				a6 = append(a6, ip+"<-"+rr.Name)
			}
		case "cname":
			if !seenC[rr.Name] {
				seenC[rr.Name] = true
				cn = append(cn, rr.Name+"->"+rr.Data)
			}
		case "ptr":
			if strings.HasSuffix(rr.Name, ".ip6.arpa") {
				// 32 nibbles, least significant first
				nib := strings.Split(strings.TrimSuffix(rr.Name, ".ip6.arpa"), ".")
				var hexs string
				for i := 31; i >= 0; i-- {
					hexs += nib[i]
				}
				raw, _ := hex.DecodeString(hexs)
				if !seenP[rr.Data] {
					seenP[rr.Data] = true
					ptr = append(ptr, fmt.Sprintf("%s=%s", rr.Data, netip.AddrFrom16([16]byte(raw))))
				}
				continue
			}
			if !strings.HasSuffix(rr.Name, ".in-addr.arpa") {
				continue // the owner is not an address (e.g. a service PTR): nothing the table could record
			}
			if !seenP[rr.Data] {
				seenP[rr.Data] = true
				// the owner name is d.c.b.a.in-addr.arpa: the address is a.b.c.d
				p := strings.Split(strings.TrimSuffix(rr.Name, ".in-addr.arpa"), ".")
				ptr = append(ptr, fmt.Sprintf("%s=%s.%s.%s.%s", rr.Data, p[3], p[2], p[1], p[0]))
			}
		}
	}
	sort.Strings(a4)
	sort.Strings(a6)
	sort.Strings(cn)
	sort.Strings(ptr)
	if len(a4)+len(a6)+len(cn)+len(ptr) == 0 {
		return "none"
	}
	return fmt.Sprintf("q=%s a=%v aaaa=%v cname=%v ptr=%v", qname, a4, a6, cn, ptr)
}

func renderEntry(e packet.DNSEntry) string {
	var a4, a6, cn, ptr []string
	for ip, r := range e.IP4Records {
		a4 = append(a4, ip.String()+"<-"+r.Name)
		if r.IP != ip {
			a4 = append(a4, "KEY-MISMATCH")
		}
	}
	for ip, r := range e.IP6Records {
		a6 = append(a6, ip.String()+"<-"+r.Name)
	}
	for k, r := range e.CNameRecords {
		cn = append(cn, k+"->"+r.CName)
		if r.Name != k {
			cn = append(cn, "KEY-MISMATCH")
		}
	}
	for k, r := range e.PTRRecords {
		ptr = append(ptr, k+"="+r.IP.String())
	}
	sort.Strings(a4)
	sort.Strings(a6)
	sort.Strings(cn)
	sort.Strings(ptr)
	if len(a4)+len(a6)+len(cn)+len(ptr) == 0 && e.Name == "" {
		return "none"
	}
	return fmt.Sprintf("q=%s a=%v aaaa=%v cname=%v ptr=%v", e.Name, a4, a6, cn, ptr)
}

// checkDNS feeds one DNS response to a fresh naming handler; want is the expected rendering, "error" or "none".
func checkDNS(e *c17Env, payload []byte, qname string, want string) (got string, failure string) {
	defer func() {
		if r := recover(); r != nil {
			failure = fmt.Sprintf("panic: %v @%s", r, panicSite())
			e.s = nil
		}
	}()
	vfuel.Set(200_000)
	h := dns.VerifNew(e.session())
	raw := dnsFrame(payload, 53, 40000, env.RouterMAC, ip4rtr, ip4a)
	buf := append([]byte(nil), raw...)
	frame, err := e.session().Parse(buf)
	if err != nil {
		return "", "Parse rejected the frame: " + err.Error()
	}
	entry, err := h.ProcessDNS(frame)
	if !scribbleOff {
		for i := range buf {
			buf[i] = 0xa5 // stored names must not alias the packet buffer
		}
	}
	if err != nil {
		got = "error"
	} else {
		got = renderEntry(h.DNSFind(qname))
		if r := renderEntry(entry); r != got && !(r == "none") {
			return got, fmt.Sprintf("ProcessDNS returned {%s} but DNSFind gives {%s}", r, got)
		}
	}
	if got != want {
		return got, fmt.Sprintf("stored {%s}, the independent implementation gives {%s}", got, want)
	}
	return got, ""
}

func labelName(nLabels, labelLen int) string {
	var l []string
	for i := 0; i < nLabels; i++ {
		l = append(l, strings.Repeat(string(rune('a'+i%26)), labelLen))
	}
	return strings.Join(l, ".")
}

func c17Names() []string {
	names := []string{"a", "www.example.com", "host.local"}
	for _, nl := range []int{1, 2, 3, 64, 127} {
		for _, ll := range []int{1, 2, 62, 63} {
			if nl*(ll+1)+1 > 255 {
				continue
			}
			names = append(names, labelName(nl, ll))
		}
	}
	// the longest legal names
	names = append(names, strings.Repeat("a", 63)+"."+strings.Repeat("b", 63)+"."+strings.Repeat("c", 63)+"."+strings.Repeat("d", 61))
	return names
}

var c17Kinds = []string{"a", "aaaa", "cname", "ptr", "mx", "txt", "ptr6", "ptrsvc"}

func c17MakeRR(kind string, idx int, owner string) c17RR {
	switch kind {
	case "a":
		return c17RR{"a", owner, fmt.Sprintf("10.1.%d.%d", idx, idx+1)}
	case "aaaa":
		return c17RR{"aaaa", owner, fmt.Sprintf("2001:db8::%x", idx+1)}
	case "cname":
		return c17RR{"cname", owner, fmt.Sprintf("alias%d.example.net", idx)}
	case "ptr":
		return c17RR{"ptr", fmt.Sprintf("%d.0.168.192.in-addr.arpa", 10+idx), fmt.Sprintf("host%d.example.com", idx)}
	case "ptr6": // the reverse name of 2001:db8::(idx+1)
		a := netip.MustParseAddr(fmt.Sprintf("2001:db8::%x", idx+1)).As16()
		var nib []string
		for i := 15; i >= 0; i-- {
			nib = append(nib, fmt.Sprintf("%x", a[i]&0xf), fmt.Sprintf("%x", a[i]>>4))
		}
		return c17RR{"ptr", strings.Join(nib, ".") + ".ip6.arpa", fmt.Sprintf("host6-%d.example.com", idx)}
	case "ptrsvc": // a PTR record whose owner is not an address
		return c17RR{"ptr", "_http._tcp." + owner, fmt.Sprintf("printer%d._http._tcp.example.com", idx)}
	case "mx":
		return c17RR{"mx", owner, "mail.example.com"}
	}
	return c17RR{"txt", owner, "v=spf1 -all"}
}

func c17DNS(c *core.Ctx, e *c17Env, qname string, rrs []c17RR, sections []int, compress bool) {
	payload, err := buildDNS(qname, dnsmessage.TypeA, rrs, sections, compress, true)
	if err != nil {
		c.Count("builder_refused", 1)
		return
	}
	c.Count("evaluations", 1)
	c.Distinct(payload)
	want := expectedDNS(qname, rrs, sections)
	if differential { // C10: the stored entry must not depend on what happens to the receive buffer afterwards
		if v := c10DNS(e, payload, qname, want); v != "" {
			c.Violate("alias|dns-table", fmt.Sprintf("question %s sections %v compress=%v: %s", trunc([]byte(qname), 40), sections, compress, v), c17Replay{Kind: "dns", Hex: hex.EncodeToString(payload), QName: qname, Want: want})
		}
		return
	}
	if got, failure := checkDNS(e, payload, qname, want); failure != "" {
		kinds := ""
		for _, r := range rrs {
			kinds += r.Kind + ","
		}
		class := "mismatch"
		if got == "error" {
			class = "rejected"
		} else if strings.HasPrefix(failure, "panic") {
			class = "panic"
		}
		c.Violate("dns-decode|"+kinds+"|"+class, fmt.Sprintf("question %s records [%s] sections %v compress=%v: %s (got %s)", trunc([]byte(qname), 40), kinds, sections, compress, failure, got),
			c17Replay{Kind: "dns", Hex: hex.EncodeToString(payload), QName: qname, Want: want})
	}
}

// raw malformed shapes: every one must be rejected with an error (never a panic, never accepted)
func c17Malformed() map[string][]byte {
	hdr := func(an uint16) []byte { return refnet.DNSHeader(5, 0x8180, 1, an, 0, 0) }
	q := refnet.DNSQuestion(refnet.DNSName("www.example.com"), 1, 1)
	m := map[string][]byte{}
	m["question-self-pointer"] = append(hdr(0), 0xc0, 12, 0, 1, 0, 1)
	m["question-2cycle"] = append(hdr(0), 0xc0, 14, 0xc0, 12, 0, 1, 0, 1)
	m["question-pointer-past-end"] = append(hdr(0), 0xff, 0xff, 0, 1, 0, 1)
	m["question-label-64"] = append(append(hdr(0), 0x40), append(make([]byte, 64), 0, 0, 1, 0, 1)...)
	m["question-label-128"] = append(append(hdr(0), 0x80), append(make([]byte, 64), 0, 0, 1, 0, 1)...)
	m["question-label-191"] = append(append(hdr(0), 0xbf), append(make([]byte, 200), 0, 0, 1, 0, 1)...)
	m["question-label-overruns"] = append(hdr(0), 20, 'a', 'b')
	m["question-truncated-type"] = append(append(hdr(0), refnet.DNSName("www.example.com")...), 0)
	base := append(hdr(1), q...)
	m["answer-self-pointer"] = append(append([]byte{}, base...), append([]byte{0xc0, byte(len(base))}, 0, 1, 0, 1, 0, 0, 0, 60, 0, 4, 1, 2, 3, 4)...)
	m["answer-pointer-past-end"] = append(append([]byte{}, base...), 0xc3, 0xff, 0, 1, 0, 1, 0, 0, 0, 60, 0, 4, 1, 2, 3, 4)
	m["answer-rdlength-overruns"] = append(append([]byte{}, base...), 0xc0, 12, 0, 1, 0, 1, 0, 0, 0, 60, 0, 40, 1, 2, 3, 4)
	m["answer-a-rdlength-3"] = append(append([]byte{}, base...), 0xc0, 12, 0, 1, 0, 1, 0, 0, 0, 60, 0, 3, 1, 2, 3)
	m["answer-aaaa-rdlength-4"] = append(append([]byte{}, base...), 0xc0, 12, 0, 28, 0, 1, 0, 0, 0, 60, 0, 4, 1, 2, 3, 4)
	m["answer-truncated-header"] = append(append([]byte{}, base...), 0xc0, 12, 0, 1, 0)
	m["answer-missing"] = append([]byte{}, base...)
	m["answer-cname-loop"] = append(append([]byte{}, base...), append([]byte{0xc0, 12, 0, 5, 0, 1, 0, 0, 0, 60, 0, 2}, 0xc0, byte(len(base)+12))...)
	return m
}

// pointer chains: the name is reached through d chained compression pointers
func c17PointerChain(depth int) ([]byte, string) {
	b := refnet.DNSHeader(5, 0x8180, 1, 1, 0, 0)
	b = append(b, refnet.DNSQuestion(refnet.DNSName("www.example.com"), 1, 1)...)
	// extra name material in an unused additional-looking area is not possible; chain inside the answer owner name
	// answer owner: "mail" + pointer -> chain of pointers -> "example.com" (offset 16 inside the question name)
	target := 16 // "example.com" inside the question name
	rr := []byte{4, 'm', 'a', 'i', 'l'}
	// the chain lives after the record: pointers p1 -> p2 -> ... -> target
	chainStart := len(b) + len(rr) + 2 + 10 + 4
	rr = append(rr, 0xc0|byte(chainStart>>8), byte(chainStart))
	rr = append(rr, 0, 1, 0, 1, 0, 0, 0, 60, 0, 4, 9, 9, 9, 9)
	b = append(b, rr...)
	for i := 0; i < depth; i++ {
		next := len(b) + 2
		if i == depth-1 {
			next = target
		}
		b = append(b, 0xc0|byte(next>>8), byte(next))
	}
	return b, "q=www.example.com a=[9.9.9.9<-mail.example.com] aaaa=[] cname=[] ptr=[]"
}

// c17FarPointer: filler records push a CNAME target beyond offset 1024; a later A record names it by pointer.
func c17FarPointer() ([]byte, string) {
	b := refnet.DNSHeader(5, 0x8180, 1, 7, 0, 0)
	b = append(b, refnet.DNSQuestion(refnet.DNSName("www.example.com"), 1, 1)...)
	for i := 0; i < 5; i++ {
		txt := append([]byte{220}, make([]byte, 220)...)
		b = append(b, refnet.DNSRR([]byte{0xc0, 12}, 16, 1, 60, txt)...)
	}
	// CNAME www.example.com -> far.example.org ; the target name starts beyond offset 1024
	target := refnet.DNSName("far.example.org")
	rr := refnet.DNSRR([]byte{0xc0, 12}, 5, 1, 60, target)
	off := len(b) + len(rr) - len(target)
	b = append(b, rr...)
	b = append(b, refnet.DNSRR([]byte{0xc0 | byte(off>>8), byte(off)}, 1, 1, 60, []byte{7, 7, 7, 7})...)
	if off < 1024 {
		panic("far pointer not far enough")
	}
	return b, "q=www.example.com a=[7.7.7.7<-far.example.org] aaaa=[] cname=[www.example.com->far.example.org] ptr=[]"
}

func c17Run(c *core.Ctx, args []string) {
	c.Res.Level = "exploration"
	c.Res.Rule = "(a) DNS responses built by the independent builder golang.org/x/net/dns/dnsmessage, with and without compression: every question name of the label-count x label-length grid {1,2,3,64,127}x{1,2,62,63} (up to 255 octets); every record sequence of length <=2 (thorough <=3) over {A, AAAA, CNAME, PTR, MX, TXT} x every section placement; the stored entry (question name, A/AAAA/CNAME/PTR records) must equal the values fed to the builder; pointer chains of depth 1..4; 16 malformed shapes (pointer loops, pointers past the end, labels 64..191, truncated/overrunning records) and every truncation of one instance per shape must be rejected with an error; mDNS A/AAAA host names in every section; NBNS node status names and every truncation of their name arrays. (b) merge algebra, complete: all 162x162 NameEntry pairs, and every update sequence of length <=3 over 3 names through each of the five Host.Update*Name on a real host, and every update sequence of length 3 over two addresses of one MAC (the MAC level entry never loses an attribute). distinct non-trivial = distinct messages / entry pairs"
	c.Res.Assumptions = []string{"ground truth = the values handed to the independent builder (golang.org/x/net/dns/dnsmessage) or to the raw reference builder", "ProcessDNS records the answer section only (as the code documents); authority/additional records are expected to be ignored by it"}
	e := &c17Env{}
	unit := 0
	next := func() bool { unit++; return c.Mine(unit - 1) }
	c17DNSSweep(c, e, next)
	c17Rest(c, e, next)
}

// c17DNSSweep enumerates the well formed DNS responses (names, record sequences x section placement, duplicates).
func c17DNSSweep(c *core.Ctx, e *c17Env, next func() bool) {
	// names
	for _, qn := range c17Names() {
		if !next() {
			continue
		}
		for _, compress := range []bool{false, true} {
			c17DNS(c, e, qn, []c17RR{{"a", qn, "10.1.2.3"}}, []int{0}, compress)
			c17DNS(c, e, qn, []c17RR{{"cname", qn, "x." + qn[:min(len(qn), 60)]}, {"a", "x." + qn[:min(len(qn), 60)], "10.1.2.4"}}, []int{0, 0}, compress)
			c17DNS(c, e, qn, nil, nil, compress)
		}
	}
	// record sequences x section placement
	maxLen := 2
	if c.Thorough() {
		maxLen = 3
	}
	var seqs [][]string
	var rec func(cur []string)
	rec = func(cur []string) {
		if len(cur) > 0 {
			seqs = append(seqs, append([]string(nil), cur...))
		}
		if len(cur) == maxLen {
			return
		}
		for _, k := range c17Kinds {
			rec(append(cur, k))
		}
	}
	rec(nil)
	for _, seq := range seqs {
		if !next() {
			continue
		}
		nplace := 1
		for range seq {
			nplace *= 3
		}
		for pl := 0; pl < nplace; pl++ {
			sections := make([]int, len(seq))
			x := pl
			var rrs []c17RR
			for i, k := range seq {
				sections[i] = x % 3
				x /= 3
				owner := "www.example.com"
				if i > 0 && seq[i-1] == "cname" {
					owner = fmt.Sprintf("alias%d.example.net", i-1)
				}
				rrs = append(rrs, c17MakeRR(k, i, owner))
			}
			// the dnsmessage builder requires sections in order: sort records by section keeping relative order
			idx := make([]int, len(rrs))
			for i := range idx {
				idx[i] = i
			}
			sort.SliceStable(idx, func(a, b int) bool { return sections[idx[a]] < sections[idx[b]] })
			var r2 []c17RR
			var s2 []int
			for _, i := range idx {
				r2 = append(r2, rrs[i])
				s2 = append(s2, sections[i])
			}
			for _, compress := range []bool{false, true} {
				c17DNS(c, e, "www.example.com", r2, s2, compress)
			}
		}
	}
	// duplicates: the same address twice, the same owner twice
	if next() {
		c17DNS(c, e, "www.example.com", []c17RR{{"a", "www.example.com", "10.1.2.3"}, {"a", "other.example.com", "10.1.2.3"}}, []int{0, 0}, true)
		c17DNS(c, e, "www.example.com", []c17RR{{"cname", "www.example.com", "a.example.com"}, {"cname", "www.example.com", "b.example.com"}}, []int{0, 0}, true)
	}
}

// c17Rest: pointer shapes, malformed messages, truncations, mDNS/NBNS names and the merge algebra.
func c17Rest(c *core.Ctx, e *c17Env, next func() bool) {
	if next() {
		{
			// compression pointers beyond offset 1023 (all 14 offset bits are significant)
			payload, want := c17FarPointer()
			c.Count("evaluations", 1)
			c.Distinct(payload)
			if got, failure := checkDNS(e, payload, "www.example.com", want); failure != "" {
				c.Violate("dns-decode|far-pointer", fmt.Sprintf("pointer to offset >= 1024: %s (got %s)", failure, got), c17Replay{Kind: "dns", Hex: hex.EncodeToString(payload), QName: "www.example.com", Want: want})
			}
		}
		for d := 1; d <= 4; d++ {
			payload, want := c17PointerChain(d)
			c.Count("evaluations", 1)
			c.Distinct(payload)
			if got, failure := checkDNS(e, payload, "www.example.com", want); failure != "" {
				c.Violate("dns-decode|pointer-chain", fmt.Sprintf("pointer chain of depth %d: %s (got %s)", d, failure, got), c17Replay{Kind: "dns", Hex: hex.EncodeToString(payload), QName: "www.example.com", Want: want})
			}
		}
	}
	// malformed shapes and their truncations
	mal := c17Malformed()
	var mnames []string
	for k := range mal {
		mnames = append(mnames, k)
	}
	sort.Strings(mnames)
	for _, name := range mnames {
		if !next() {
			continue
		}
		payload := mal[name]
		c.Count("evaluations", 1)
		c.Distinct(payload)
		if got, failure := checkDNS(e, payload, "www.example.com", "error"); failure != "" {
			c.Violate("dns-malformed-accepted|"+name, fmt.Sprintf("malformed message %s: %s (got %s)", name, failure, got), c17Replay{Kind: "dns", Hex: hex.EncodeToString(payload), QName: "www.example.com", Want: "error"})
		}
		for n := 12; n < len(payload); n++ {
			c.Count("evaluations", 1)
			// a truncation must not panic; it is either rejected or (if the cut removed the offending part) decodes
			if _, failure := checkDNS(e, payload[:n], "www.example.com", "error"); strings.HasPrefix(failure, "panic") {
				c.Violate("dns-truncation-panic|"+name, fmt.Sprintf("%s truncated to %d bytes: %s", name, n, failure), c17Replay{Kind: "dns", Hex: hex.EncodeToString(payload[:n]), QName: "www.example.com", Want: "error"})
			}
		}
	}
	// every truncation of a valid multi-record message: rejected or a prefix-consistent decode, never a panic
	if next() {
		rrs := []c17RR{c17MakeRR("cname", 0, "www.example.com"), c17MakeRR("a", 1, "alias0.example.net"), c17MakeRR("aaaa", 2, "alias0.example.net"), c17MakeRR("ptr", 3, "")}
		payload, _ := buildDNS("www.example.com", dnsmessage.TypeA, rrs, []int{0, 0, 0, 0}, true, true)
		for n := 0; n < len(payload); n++ {
			c.Count("evaluations", 1)
			got, failure := checkDNS(e, payload[:n], "www.example.com", "error")
			if n >= 12 && got != "error" && got != "" {
				c.Violate("dns-truncated-accepted", fmt.Sprintf("a response truncated to %d of %d bytes (answer count says 4 records) was accepted: %s", n, len(payload), got), c17Replay{Kind: "dns", Hex: hex.EncodeToString(payload[:n]), QName: "www.example.com", Want: "error"})
			} else if strings.HasPrefix(failure, "panic") {
				c.Violate("dns-truncation-panic|valid", failure, c17Replay{Kind: "dns", Hex: hex.EncodeToString(payload[:n]), QName: "www.example.com", Want: "error"})
			}
		}
	}
	// mDNS host names and NBNS names
	if next() {
		c17MDNS(c, e)
		c17NBNS(c, e)
	}
	// merge algebra
	c17Merge(c, e, next)
	if next() {
		c17TwoHosts(c, e)
	}
	c.Sample(map[string]any{"question": "www.example.com", "records": []string{"cname(answer)", "a(answer)", "aaaa(additional)"}, "compression": true}, 8)
	c.Sample(map[string]any{"malformed": "question-2cycle"}, 8)
}

func c17MDNS(c *core.Ctx, e *c17Env) {
	for _, host := range []string{"tv", "living-room-tv", labelName(1, 63), "nicola", "office-pc", "a", "local", "loc.al"} {
		for sec := 0; sec < 3; sec++ {
			for _, compress := range []bool{false, true} {
				rrs := []c17RR{{"txt", "x._airplay._tcp.local", "model=AppleTV"}, {"a", host + ".local", "192.168.0.10"}, {"aaaa", host + ".local", "fe80::10"}}
				sections := []int{0, sec, sec}
				payload, err := buildDNS("", dnsmessage.TypeA, rrs, sections, compress, true)
				if err != nil {
					continue
				}
				c.Count("evaluations", 1)
				c.Distinct(payload)
				got, failure := func() (got string, failure string) {
					defer func() {
						if r := recover(); r != nil {
							failure = fmt.Sprintf("panic: %v @%s", r, panicSite())
							e.s = nil
						}
					}()
					vfuel.Set(200_000)
					h := dns.VerifNew(e.session())
					raw := refnet.Eth(env.McastMAC, env.MAC1, 0x0800, refnet.IP4(ip4a, netip.MustParseAddr("224.0.0.251"), 17, refnet.UDP(5353, 5353, payload), refnet.IP4Opt{}))
					frame, err := e.session().Parse(append([]byte(nil), raw...))
					if err != nil {
						return "", "Parse: " + err.Error()
					}
					v4, v6, err := h.ProcessMDNS(frame)
					if err != nil {
						return "error", ""
					}
					var out []string
					for _, x := range v4 {
						out = append(out, "4:"+x.NameEntry.Name+"="+x.Addr.IP.String())
					}
					for _, x := range v6 {
						out = append(out, "6:"+x.NameEntry.Name+"="+x.Addr.IP.String())
					}
					return strings.Join(out, " "), ""
				}()
				want := fmt.Sprintf("4:%s=192.168.0.10 6:%s=fe80::10", host, host)
				if failure == "" && got != want {
					failure = fmt.Sprintf("host names {%s}, the independent implementation gives {%s}", got, want)
				}
				if failure != "" {
					c.Violate("mdns-decode|"+firstWords(failure, 2), fmt.Sprintf("mDNS response host=%s section=%d compress=%v: %s", trunc([]byte(host), 20), sec, compress, failure), c17Replay{Kind: "mdns", Hex: hex.EncodeToString(payload), Want: want})
				}
			}
		}
	}
}

func c17NBNS(c *core.Ctx, e *c17Env) {
	nbname := append([]byte{0x20}, []byte("FHEPFCELEHFCEPFFFACACACACACACAAA")...)
	nbname = append(nbname, 0)
	type nm struct {
		name  string
		group bool
	}
	cases := [][]nm{
		{{"WORKSTATION1", false}},
		{{"WORKGROUP", true}, {"DESKTOP-ABC", false}},
		{{"GROUP1", true}, {"GROUP2", true}, {"SERVER01", false}, {"OTHER", false}},
		{{"GROUPONLY", true}},
	}
	for ci, names := range cases {
		data := []byte{byte(len(names))}
		want := ""
		for _, n := range names {
			field := []byte(n.name + strings.Repeat(" ", 15-len(n.name)) + "\x00")
			flags := []byte{0x04, 0x00}
			if n.group {
				flags[0] |= 0x80
			} else if want == "" {
				want = n.name
			}
			data = append(data, append(field, flags...)...)
		}
		data = append(data, make([]byte, 46)...)
		b := refnet.DNSHeader(9, 0x8400, 0, 1, 0, 0)
		b = append(b, refnet.DNSRR(nbname, 0x21, 1, 0, data)...)
		c.Count("evaluations", 1)
		c.Distinct(b)
		got, failure := func() (got string, failure string) {
			defer func() {
				if r := recover(); r != nil {
					failure = fmt.Sprintf("panic: %v @%s", r, panicSite())
				}
			}()
			vfuel.Set(200_000)
			h := dns.VerifNew(e.session())
			raw := dnsFrame(b, 137, 137, env.MAC1, ip4a, ip4host)
			frame, err := e.session().Parse(append([]byte(nil), raw...))
			if err != nil {
				return "", "Parse: " + err.Error()
			}
			n, err := h.ProcessNBNS(frame.Host, frame.Ether(), frame.Payload())
			if err != nil {
				return "error", ""
			}
			return n.Name, ""
		}()
		if failure == "" && got != want {
			failure = fmt.Sprintf("node status name %q, the reference gives %q", got, want)
		}
		if failure != "" {
			c.Violate("nbns-decode|"+firstWords(failure, 2), fmt.Sprintf("NBNS node status case %d: %s", ci, failure), c17Replay{Kind: "nbns", Hex: hex.EncodeToString(b), Want: want})
		}
		// every truncation of the name array (record length kept consistent): rejected, empty, or the name of an entry
		// that is completely present - never a panic, never a name read from beyond the data
		for cut := 1; cut < 1+18*len(names); cut++ {
			tb := refnet.DNSHeader(9, 0x8400, 0, 1, 0, 0)
			tb = append(tb, refnet.DNSRR(nbname, 0x21, 1, 0, data[:cut])...)
			c.Count("evaluations", 1)
			got, failure := func() (got string, failure string) {
				defer func() {
					if r := recover(); r != nil {
						failure = fmt.Sprintf("panic: %v @%s", r, panicSite())
					}
				}()
				vfuel.Set(200_000)
				h := dns.VerifNew(e.session())
				raw := dnsFrame(tb, 137, 137, env.MAC1, ip4a, ip4host)
				frame, err := e.session().Parse(append([]byte(nil), raw...))
				if err != nil {
					return "", "Parse: " + err.Error()
				}
				n, err := h.ProcessNBNS(frame.Host, frame.Ether(), frame.Payload())
				if err != nil {
					return "", ""
				}
				return n.Name, ""
			}()
			okName := got == ""
			for i, n := range names {
				if !n.group && got == n.name && 1+18*(i+1) <= cut {
					okName = true
				}
			}
			if failure != "" || !okName {
				c.Violate("nbns-truncated|"+firstWords(failure+" "+got, 1), fmt.Sprintf("NBNS node status case %d with the name array cut after %d of %d bytes: %s name=%q", ci, cut, 1+18*len(names), failure, got), c17Replay{Kind: "nbns", Hex: hex.EncodeToString(tb), Want: want})
				break
			}
		}
	}
}

func c17Entries() []packet.NameEntry {
	vals := []string{"", "a", "b"}
	var out []packet.NameEntry
	t := time.Unix(1800000000, 0)
	for _, n := range vals {
		for _, m := range vals {
			for _, o := range vals {
				for _, mf := range vals {
					for _, ex := range []time.Time{{}, t} {
						out = append(out, packet.NameEntry{Type: "t", Name: n, Model: m, OS: o, Manufacturer: mf, Expire: ex})
					}
				}
			}
		}
	}
	return out
}

func mergeViolation(e, n packet.NameEntry) string {
	r, modified := e.Merge(n)
	attrs := func(x packet.NameEntry) [4]string { return [4]string{x.Name, x.Model, x.OS, x.Manufacturer} }
	a, b, rr := attrs(e), attrs(n), attrs(r)
	changed := false
	for i := 0; i < 4; i++ {
		if a[i] != "" && rr[i] == "" {
			return fmt.Sprintf("attribute %d %q was erased", i, a[i])
		}
		want := a[i]
		if b[i] != "" {
			want = b[i]
		}
		if rr[i] != want {
			return fmt.Sprintf("attribute %d is %q, want %q", i, rr[i], want)
		}
		if rr[i] != a[i] {
			changed = true
		}
	}
	if modified != changed {
		return fmt.Sprintf("modified=%v but attributes changed=%v", modified, changed)
	}
	r2, modified2 := r.Merge(n)
	if modified2 || attrs(r2) != rr || r2.Expire != r.Expire {
		return "merging the same entry a second time changes the result (not idempotent)"
	}
	return ""
}

func c17Merge(c *core.Ctx, e *c17Env, next func() bool) {
	entries := c17Entries()
	for i, a := range entries {
		if !next() {
			continue
		}
		for j, b := range entries {
			c.Count("evaluations", 1)
			c.Count("merge_pairs", 1)
			c.Count("distinct_extra", 1)
			if v := mergeViolation(a, b); v != "" {
				c.Violate("merge|"+firstWords(v, 2), fmt.Sprintf("Merge(%+v, %+v): %s", a, b, v), c17Replay{Kind: "merge", Args: []int{i, j}})
			}
		}
	}
	// update sequences through the five Host.Update*Name on a real host
	if !next() {
		return
	}
	names := []packet.NameEntry{{Type: "t", Name: "a"}, {Type: "t", Name: "b", Model: "m"}, {Type: "t"}}
	s := e.session()
	frame, _ := s.Parse(frame4(env.MAC1, ip4a))
	host := frame.Host
	s.Notify(frame)
	for len(s.C) > 0 {
		<-s.C
	}
	upd := []func(h *packet.Host, n packet.NameEntry){
		func(h *packet.Host, n packet.NameEntry) { h.UpdateDHCP4Name(n) },
		func(h *packet.Host, n packet.NameEntry) { h.UpdateMDNSName(n) },
		func(h *packet.Host, n packet.NameEntry) { h.UpdateSSDPName(n) },
		func(h *packet.Host, n packet.NameEntry) { h.UpdateLLMNRName(n) },
		func(h *packet.Host, n packet.NameEntry) { h.UpdateNBNSName(n) },
	}
	get := []func(h *packet.Host) packet.NameEntry{
		func(h *packet.Host) packet.NameEntry { return h.DHCP4Name },
		func(h *packet.Host) packet.NameEntry { return h.MDNSName },
		func(h *packet.Host) packet.NameEntry { return h.SSDPName },
		func(h *packet.Host) packet.NameEntry { return h.LLMNRName },
		func(h *packet.Host) packet.NameEntry { return h.NBNSName },
	}
	for src := 0; src < 5; src++ {
		for a := 0; a < 3; a++ {
			for b := 0; b < 3; b++ {
				for d := 0; d < 3; d++ {
					// reset the host's names of this source
					*host = packet.Host{Addr: host.Addr, MACEntry: host.MACEntry, Online: host.Online, HuntStage: host.HuntStage, LastSeen: host.LastSeen, Manufacturer: host.Manufacturer}
					for _, k := range []int{a, b, d} {
						c.Count("evaluations", 1)
						c.Count("update_steps", 1)
						before := get[src](host)
						// clear the pending notification so that Dirty reflects this update only
						f2, _ := s.Parse(frame4(env.MAC1, ip4a))
						s.Notify(f2)
						for len(s.C) > 0 {
							<-s.C
						}
						if host.Dirty() {
							c.Violate("merge|dirty-not-cleared", "Notify did not clear the pending flag", c17Replay{Kind: "merge", Args: []int{src, a, b, d}})
						}
						upd[src](host, names[k])
						after := get[src](host)
						changed := before.Name != after.Name || before.Model != after.Model || before.OS != after.OS || before.Manufacturer != after.Manufacturer
						if (before.Name != "" && after.Name == "") || (before.Model != "" && after.Model == "") {
							c.Violate("merge|update-erased", fmt.Sprintf("update source %d erased an attribute: %+v -> %+v", src, before, after), c17Replay{Kind: "merge", Args: []int{src, a, b, d}})
						}
						if host.Dirty() != changed {
							c.Violate("merge|dirty-mismatch", fmt.Sprintf("update source %d with %+v: Dirty()=%v but the name changed=%v (%+v -> %+v)", src, names[k], host.Dirty(), changed, before, after), c17Replay{Kind: "merge", Args: []int{src, a, b, d}})
						}
					}
				}
			}
		}
	}
}

// c17TwoHosts: update sequences over TWO addresses of one MAC (a dual stack station). The MAC level entry, which is
// what notifications report, must never lose a non-empty attribute whichever address learns a name.
func c17TwoHosts(c *core.Ctx, e *c17Env) {
	s := e.session()
	f1, _ := s.Parse(frame4(env.MAC1, ip4a))
	f2, _ := s.Parse(frame6(env.MAC1, lla1))
	if f1.Host == nil || f2.Host == nil || f1.Host.MACEntry != f2.Host.MACEntry {
		c.Violate("merge|setup", "two addresses of one MAC do not share a MAC entry", c17Replay{Kind: "merge2"})
		return
	}
	hosts := []*packet.Host{f1.Host, f2.Host}
	me := f1.Host.MACEntry
	// the last entry is a source that knows no name (e.g. a DHCP message without host name option)
	names := []packet.NameEntry{{Type: "t", Name: "a"}, {Type: "t", Name: "b", Model: "m"}, {Type: "t", Name: "a", Manufacturer: "mf", OS: "os"}, {Type: "t"}}
	upd := []func(h *packet.Host, n packet.NameEntry){
		func(h *packet.Host, n packet.NameEntry) { h.UpdateDHCP4Name(n) },
		func(h *packet.Host, n packet.NameEntry) { h.UpdateMDNSName(n) },
		func(h *packet.Host, n packet.NameEntry) { h.UpdateSSDPName(n) },
		func(h *packet.Host, n packet.NameEntry) { h.UpdateLLMNRName(n) },
		func(h *packet.Host, n packet.NameEntry) { h.UpdateNBNSName(n) },
	}
	macName := []func() *packet.NameEntry{
		func() *packet.NameEntry { return &me.DHCP4Name }, func() *packet.NameEntry { return &me.MDNSName }, func() *packet.NameEntry { return &me.SSDPName },
		func() *packet.NameEntry { return &me.LLMNRName }, func() *packet.NameEntry { return &me.NBNSName },
	}
	// per step: a target (address 1, address 2, or - DHCP only - the name learned with a DHCP offer, which goes to the
	// MAC level entry directly) and one of the four entries
	const nOpt = 3 * 4
	for src := 0; src < 5; src++ {
		for code := 0; code < nOpt*nOpt*nOpt; code++ {
			for _, h := range hosts {
				*h = packet.Host{Addr: h.Addr, MACEntry: h.MACEntry, Online: h.Online, HuntStage: h.HuntStage, LastSeen: h.LastSeen, Manufacturer: h.Manufacturer}
			}
			*macName[src]() = packet.NameEntry{}
			x := code
			var trace []string
			skip := false
			for y, step := code, 0; step < 3; step++ {
				if y%nOpt/4 == 2 && src != 0 {
					skip = true
				}
				y /= nOpt
			}
			if skip {
				continue
			}
			for step := 0; step < 3; step++ {
				hi, ni := x%nOpt/4, x%4
				x /= nOpt
				c.Count("evaluations", 1)
				c.Count("update_steps", 1)
				before := *macName[src]()
				if hi == 2 {
					s.SetDHCPv4IPOffer(me.MAC, ip4b, names[ni])
					trace = append(trace, fmt.Sprintf("offer<-%+v", names[ni]))
				} else {
					upd[src](hosts[hi], names[ni])
					trace = append(trace, fmt.Sprintf("addr%d<-%+v", hi+1, names[ni]))
				}
				after := *macName[src]()
				if (before.Name != "" && after.Name == "") || (before.Model != "" && after.Model == "") || (before.Manufacturer != "" && after.Manufacturer == "") || (before.OS != "" && after.OS == "") {
					c.Violate("merge|mac-entry-erased", fmt.Sprintf("name source %d, updates %v: the MAC level entry lost an attribute: %+v -> %+v", src, trace, before, after), c17Replay{Kind: "merge2", Args: []int{src, code}})
					break
				}
			}
		}
	}
}

func c17Replayer(data []byte) string {
	var r c17Replay
	if jsonUnmarshal(data, &r) != nil {
		return ""
	}
	e := &c17Env{}
	switch r.Kind {
	case "dns":
		b, _ := hex.DecodeString(r.Hex)
		_, failure := checkDNS(e, b, r.QName, r.Want)
		if r.Want == "error" && failure != "" && !strings.HasPrefix(failure, "panic") && strings.Contains(failure, "stored {error}") {
			return ""
		}
		return failure
	case "merge":
		if len(r.Args) == 2 {
			en := c17Entries()
			return mergeViolation(en[r.Args[0]], en[r.Args[1]])
		}
		c := core.NewCtx("C17", "quick", "replay", 0, 1, "")
		n := 0
		c17Merge(c, e, func() bool { n++; return n > len(c17Entries()) })
		if len(c.Res.Violations) > 0 {
			return c.Res.Violations[0].What
		}
	case "merge2":
		c := core.NewCtx("C17", "quick", "replay", 0, 1, "")
		c17TwoHosts(c, e)
		if len(c.Res.Violations) > 0 {
			return c.Res.Violations[0].What
		}
	case "mdns", "nbns":
		c := core.NewCtx("C17", "quick", "replay", 0, 1, "")
		c17MDNS(c, e)
		c17NBNS(c, e)
		if len(c.Res.Violations) > 0 {
			return c.Res.Violations[0].What
		}
	}
	return ""
}

func init() {
	Registry["C17"] = &Driver{
		Plan:   func(tier string) []core.Job { return shardJobs("dns", 16, false, 1700) },
		Run:    c17Run,
		Replay: c17Replayer,
	}
}
