package props

import (
	"harness/tmpl"
)

// Thin aliases of the shared template package.

type Tmpl = tmpl.Tmpl

var (
	ip4a    = tmpl.IP4a
	ip4b    = tmpl.IP4b
	ip4off  = tmpl.IP4off
	ip4host = tmpl.IP4host
	ip4rtr  = tmpl.IP4rtr
	ip4zero = tmpl.IP4zero
	ip4bc   = tmpl.IP4bc
	lla1    = tmpl.LLA1
	lla2    = tmpl.LLA2
	gua1    = tmpl.GUA1
	mc6     = tmpl.MC6
	bcast   = tmpl.Bcast

	portAlphabet = tmpl.PortAlphabet
	etherTypes   = tmpl.EtherTypes
)

type namedMAC struct {
	n string
	m []byte
}

func srcMACs() []namedMAC {
	var out []namedMAC
	for _, x := range tmpl.SrcMACs() {
		out = append(out, namedMAC{x.N, x.M})
	}
	return out
}

func pat(n int, seed byte) []byte                   { return tmpl.Pat(n, seed) }
func dhcpDiscover(chaddr []byte, xid uint32) []byte { return tmpl.DHCPDiscover(chaddr, xid) }
func frameTemplates(full bool) []Tmpl               { return tmpl.FrameTemplates(full) }
func hex4(v uint16) string                          { return tmpl.Hex4(v) }
