package props

import (
	"errors"
	"fmt"
	"strings"
	"time"

	"harness/core"
	"harness/env"
	"harness/refnet"

	"github.com/irai/packet"
	"github.com/irai/packet/verifshim/vsched"
)

// C19: ping completes exactly on a matching echo reply.

// frame symbols delivered by the packet loop thread
const (
	symR1  = iota // echo reply carrying the id of the first captured request
	symR2         // echo reply carrying the id of the second captured request
	symF          // echo reply with a foreign id
	symQ1         // echo REQUEST carrying the id of the first request
	symS          // 7 byte ICMP message with type echo reply and the first id (malformed)
	symX1         // the first id in a message whose type is the OTHER family's echo reply number (ICMPv6 type 0 / ICMPv4 type 129): not an echo reply
	symR1o        // echo reply carrying the first id, sent from ANOTHER address of the replier (multicast ping, multi-homed host): completes the ping
	symR1e        // echo reply carrying the first id and no data at all (an 8 byte ICMP message): completes the ping
	symP          // IPv4 echo reply cut to 4 bytes by the IP total length, in a frame padded to 60 bytes whose padding holds the first id where the identifier would be (malformed)
	nSyms
)

var symNames = []string{"reply(id1)", "reply(id2)", "reply(foreign)", "request(id1)", "short(id1)", "othertype(id1)", "reply(id1,other source)", "reply(id1,no data)", "cut-by-total-length(id1 in the padding)"}

type pingEvent struct {
	kind string // sent, returned, delivered
	who  int    // ping index or symbol
	id   int
	t    int64
	err  string
}

type pingLog struct {
	ev []pingEvent
}

//go:norace
func (l *pingLog) add(e pingEvent) { l.ev = append(l.ev, e) }

func c19Scenario(v6second bool, seq []int) *concScenario { return c19ScenarioF(v6second, seq, 0) }

// c19ScenarioF: failAt > 0 makes the failAt-th transmission fail (environment deviation: the send error path).
func c19ScenarioF(v6second bool, seq []int, failAt int) *concScenario {
	name := "ping44"
	if v6second {
		name = "ping46"
	}
	if failAt > 0 {
		name = fmt.Sprintf("%s-sendfail%d", name, failAt)
	}
	var parts []string
	for _, s := range seq {
		parts = append(parts, symNames[s])
	}
	name += "[" + strings.Join(parts, ",") + "]"
	return &concScenario{name: name, maxClock: 3,
		body: func(x *concExec) {
			concReset()
			s, conn := concSession()
			if failAt < 10 {
				conn.FailAt = failAt
			}
			x.data["session"] = s
			log := &pingLog{}
			x.data["log"] = log
			dst4 := packet.Addr{MAC: env.MAC1, IP: ip4a}
			dst6 := packet.Addr{MAC: env.MAC1, IP: lla1}
			src6 := packet.Addr{MAC: env.HostMAC, IP: env.HostLLA}
			ping := func(i int, six bool) func() {
				return func() {
					var err error
					if six {
						err = s.Ping6(src6, dst6, 2*time.Second)
					} else {
						err = s.Ping(dst4, 2*time.Second)
					}
					e := ""
					if err != nil {
						e = err.Error()
						if !errors.Is(err, packet.ErrTimeout) {
							e = "other:" + e
						}
					}
					log.add(pingEvent{kind: "returned", who: i, t: vsched.NowNanos(), err: e})
				}
			}
			loop := func() {
				for _, sym := range seq {
					vsched.Yield()
					ids4 := echoRequestIDs(conn, false)
					ids6 := echoRequestIDs(conn, true)
					// (id, family) of the captured requests in capture order
					type req struct {
						id  uint16
						six bool
					}
					var reqs []req
					i4, i6 := 0, 0
					for i := 0; i < conn.Len(); i++ {
						if six, ok := frameIsEcho6(conn, i); ok {
							if six {
								reqs = append(reqs, req{ids6[i6], true})
								i6++
							} else {
								reqs = append(reqs, req{ids4[i4], false})
								i4++
							}
						}
					}
					pick := func(k int) (req, bool) {
						if k < len(reqs) {
							return reqs[k], true
						}
						return req{}, false
					}
					var f []byte
					var r req
					ok := true
					id := -1
					mk := func(r req, typ4, typ6 byte, id uint16, short bool) []byte {
						if r.six {
							body := refnet.EchoBody(id, 1, []byte("data"))
							if short {
								body = body[:3]
							}
							return refnet.Eth(env.HostMAC, env.MAC1, 0x86dd, refnet.IP6(lla1, env.HostLLA, 58, 64, refnet.ICMP6(lla1, env.HostLLA, typ6, 0, body), -1))
						}
						m := refnet.ICMP4(typ4, 0, [4]byte{byte(id >> 8), byte(id), 0, 1}, []byte("data"))
						if short {
							m = m[:7]
						}
						return refnet.Eth(env.HostMAC, env.MAC1, 0x0800, refnet.IP4(ip4a, ip4host, 1, m, refnet.IP4Opt{}))
					}
					switch sym {
					case symR1:
						if r, ok = pick(0); ok {
							f, id = mk(r, 0, 129, r.id, false), int(r.id)
						}
					case symR2:
						if r, ok = pick(1); ok {
							f, id = mk(r, 0, 129, r.id, false), int(r.id)
						}
					case symF:
						f = mk(req{}, 0, 129, 0x7777, false)
					case symQ1:
						if r, ok = pick(0); ok {
							f = mk(r, 8, 128, r.id, false)
						}
					case symS:
						if r, ok = pick(0); ok {
							f = mk(r, 0, 129, r.id, true)
						}
					case symX1:
						if r, ok = pick(0); ok {
							f = mk(r, 129, 0, r.id, false)
						}
					case symR1e:
						if r, ok = pick(0); ok {
							id = int(r.id)
							if r.six {
								f = refnet.Eth(env.HostMAC, env.MAC1, 0x86dd, refnet.IP6(lla1, env.HostLLA, 58, 64, refnet.ICMP6(lla1, env.HostLLA, 129, 0, refnet.EchoBody(r.id, 1, nil)), -1))
							} else {
								m := refnet.ICMP4(0, 0, [4]byte{byte(r.id >> 8), byte(r.id), 0, 1}, nil)
								f = refnet.Eth(env.HostMAC, env.MAC1, 0x0800, refnet.IP4(ip4a, ip4host, 1, m, refnet.IP4Opt{}))
							}
						}
					case symP:
						if r, ok = pick(0); ok && !r.six {
							m := refnet.ICMP4(0, 0, [4]byte{byte(r.id >> 8), byte(r.id), 0, 1}, nil)
							f = refnet.Eth(env.HostMAC, env.MAC1, 0x0800, refnet.IP4(ip4a, ip4host, 1, m[:4], refnet.IP4Opt{}))
							f = append(f, m[4:8]...)
							f = append(f, make([]byte, 60-len(f))...)
						}
					case symR1o:
						if r, ok = pick(0); ok {
							id = int(r.id)
							if r.six {
								f = refnet.Eth(env.HostMAC, env.MAC1, 0x86dd, refnet.IP6(lla2, env.HostLLA, 58, 64, refnet.ICMP6(lla2, env.HostLLA, 129, 0, refnet.EchoBody(r.id, 1, []byte("data"))), -1))
							} else {
								m := refnet.ICMP4(0, 0, [4]byte{byte(r.id >> 8), byte(r.id), 0, 1}, []byte("data"))
								f = refnet.Eth(env.HostMAC, env.MAC1, 0x0800, refnet.IP4(ip4b, ip4host, 1, m, refnet.IP4Opt{}))
							}
						}
					}
					if f == nil {
						continue
					}
					parseNotify(s, f)
					log.add(pingEvent{kind: "delivered", who: sym, id: id, t: vsched.NowNanos()})
				}
			}
			if failAt >= 10 { // four concurrent IPv4 pings, the (failAt-10)th transmission fails
				conn.FailAt = failAt - 10
				threads(ping(0, false), ping(1, false), ping(2, false), ping(3, false))
			} else {
				threads(ping(0, false), ping(1, v6second), loop)
			}
			vsched.WaitIdle()
			log.add(pingEvent{kind: "end", who: packet.VerifICMPWaiters()})
			s.Close()
			vsched.WaitIdle()
		},
		post: func(x *concExec) {
			log := x.data["log"].(*pingLog)
			conn := x.data["session"].(*packet.Session).Conn.(*env.Conn)
			// request ids and send times in capture order
			type sent struct {
				id  int
				t   int64
				six bool
			}
			var sents []sent
			for _, f := range conn.Frames {
				info := refnet.DecodeSent(f.Data, env.HostMAC)
				if (info.Kind == "icmp4-echo" && info.ICMPType == 8) || (info.Kind == "icmp6-echo" && info.ICMPType == 128) {
					sents = append(sents, sent{int(info.EchoID), f.Time, info.Kind == "icmp6-echo"})
				}
				if strings.HasSuffix(info.Kind, "-echo") {
					for _, p := range info.Problems {
						x.fail("frame", "emitted echo request malformed: "+p)
					}
				}
			}
			for i := range sents {
				for j := i + 1; j < len(sents); j++ {
					if sents[i].id == sents[j].id && sents[i].six == sents[j].six {
						x.fail("ids", fmt.Sprintf("two concurrent pings used the same identifier %d", sents[i].id))
					}
				}
			}
			var obs []string
			returned := 0
			for _, e := range log.ev {
				switch e.kind {
				case "returned":
					returned++
					obs = append(obs, fmt.Sprintf("ping%d=%s", e.who, e.err))
					if strings.HasPrefix(e.err, "other:") && failAt == 0 {
						x.fail("result", fmt.Sprintf("ping %d returned %s", e.who, e.err))
					}
				case "delivered":
					obs = append(obs, fmt.Sprintf("d(%s)", symNames[e.who]))
				case "end":
					if e.who != 0 {
						x.fail("waiters", fmt.Sprintf("%d waiter entries left behind", e.who))
					}
				}
			}
			if failAt >= 10 {
				x.obs = append(x.obs, strings.Join(obs, " "))
				return // four pings, one failed transmission: identifiers and waiters were checked above
			}
			if returned != 2 {
				return // deadlock/horizon is reported by the explorer
			}
			if failAt > 0 {
				// a ping whose request could not be sent reports the send error; the other clauses are decided by the
				// scenarios without a failure. Here: nobody hangs, nothing panics, no waiter entry is left behind.
				x.obs = append(x.obs, strings.Join(obs, " "))
				return
			}
			// per request: was a matching reply delivered strictly before its timer fired / only after / never
			for _, sn := range sents {
				early, late := false, false
				for _, e := range log.ev {
					if e.kind == "delivered" && e.id == sn.id && (e.who == symR1 || e.who == symR2 || e.who == symR1o || e.who == symR1e) {
						if e.t < sn.t+int64(2*time.Second) {
							early = true
						} else {
							late = true
						}
					}
				}
				// which ping used this id: pings are identified by family when they differ, else by order of return
				results := map[string]int{}
				for _, e := range log.ev {
					if e.kind == "returned" {
						results[e.err]++
					}
				}
				_ = late
				if !early && !late {
					// nothing matching was ever delivered for this id: at least one ping must time out;
					// if nothing matching was delivered for either id both must time out (checked below)
					continue
				}
			}
			matched := 0 // number of requests with a matching reply before their timeout fired
			never := 0   // number of requests for which no matching reply was delivered at all
			for _, sn := range sents {
				early, any := false, false
				for _, e := range log.ev {
					if e.kind == "delivered" && e.id == sn.id && (e.who == symR1 || e.who == symR2 || e.who == symR1o || e.who == symR1e) {
						any = true
						if e.t < sn.t+int64(2*time.Second) {
							early = true
						}
					}
				}
				if early {
					matched++
				}
				if !any {
					never++
				}
			}
			okCount, toCount := 0, 0
			for _, e := range log.ev {
				if e.kind == "returned" {
					if e.err == "" {
						okCount++
					} else {
						toCount++
					}
				}
			}
			if okCount < matched {
				x.fail("missed-reply", fmt.Sprintf("%d request(s) had a matching echo reply parsed before the timeout but only %d ping(s) returned nil; log=%v", matched, okCount, obs))
			}
			if toCount < never+(2-len(sents)) {
				x.fail("spurious-completion", fmt.Sprintf("%d request(s) never had a matching echo reply but only %d ping(s) timed out; log=%v", never, toCount, obs))
			}
			x.obs = append(x.obs, strings.Join(obs, " "))
		},
	}
}

// frameIsEcho6 reports whether captured frame i is an echo request and its family.
//
//go:norace
func frameIsEcho6(conn *env.Conn, i int) (six bool, ok bool) {
	d := conn.Frames[i].Data
	if len(d) >= 42 && d[12] == 0x08 && d[13] == 0x00 && d[23] == 1 && d[34] == 8 {
		return false, true
	}
	if len(d) >= 62 && d[12] == 0x86 && d[13] == 0xdd && d[20] == 58 && d[54] == 128 {
		return true, true
	}
	return false, false
}

func c19Sequences(maxLen int) [][]int {
	seqs := [][]int{{}}
	var rec func(cur []int)
	rec = func(cur []int) {
		if len(cur) > 0 {
			seqs = append(seqs, append([]int(nil), cur...))
		}
		if len(cur) == maxLen {
			return
		}
		for s := 0; s < nSyms; s++ {
			rec(append(cur, s))
		}
	}
	rec(nil)
	return seqs
}

func c19Scenarios(maxLen int) []*concScenario {
	var l []*concScenario
	for _, six := range []bool{false, true} {
		for _, seq := range c19Sequences(maxLen) {
			l = append(l, c19Scenario(six, seq))
		}
		if !six {
			l = append(l, c19ScenarioF(false, nil, 11), c19ScenarioF(false, nil, 12)) // four pings, the first / second transmission fails
		}
		// environment deviation: the first or the second transmission fails
		for _, failAt := range []int{1, 2} {
			for _, seq := range [][]int{{}, {symR1}, {symR2}} {
				l = append(l, c19ScenarioF(six, seq, failAt))
			}
		}
	}
	return l
}

func c19Run(c *core.Ctx, args []string) {
	c.Res.Level = "model_checking"
	c.Res.Rule = "for two concurrent pings (IPv4+IPv4 and IPv4+IPv6, timeout 2s) and every sequence of <=2 (thorough <=3) frames from {reply(id1), reply(id2), reply(foreign id), request(id1), 7-byte reply(id1), id1 in a message typed with the other family's echo-reply number, reply(id1) from another source address, reply(id1) without data} delivered by one packet-loop thread (ids are read from the captured requests; WriteTo and the timer firing are scheduling points): stateless DFS over all schedules up to the deviation bound. Oracle per execution: a request whose matching reply was parsed before its timer fired must complete with nil, a request that never had a matching reply must return ErrTimeout, identifiers distinct, no panic, no waiter left; plus 12 scenarios in which the first or second transmission fails and 2 scenarios with four concurrent pings one of whose transmissions fails (the send-error path must not leave a waiter behind); the scenarios with at most one frame are explored again under the race detector (bound 1). distinct = distinct observation vectors"
	c.Res.Assumptions = []string{"a reply delivered after the timer fired but before the pinging goroutine ran may legitimately complete the ping or not (both accepted)", "send errors: only 'the first/second transmission fails' is injected, as a one-step environment deviation", "a reply of the other address family carrying the right identifier is not in the alphabet (the statement does not decide it)"}
	maxLen, bound := 2, 1
	if c.Thorough() {
		maxLen, bound = 3, 2
	}
	if strings.HasSuffix(c.Job, ".race") {
		// the race detector build: unsynchronised accesses between two concurrent pings (shared scratch state) do not show
		// as interleavings under the cooperative scheduler, they show as data races on the explored schedules
		maxLen, bound = 1, 1
	}
	scs := c19Scenarios(maxLen)
	for i, sc := range scs {
		if !c.Mine(i) {
			continue
		}
		sub := *c
		sub.Shard, sub.NShards = 0, 1
		exploreScenario(&sub, "C19", sc, bound)
		c.Count("scenarios", 1)
	}
	c.Res.Bound = fmt.Sprintf("frame sequences of length <= %d, deviation bound %d, clock horizon 3 firings", maxLen, bound)
	c.Res.Counters["states"] = int64(c.DistinctCount())
	c.Sample(map[string]any{"scenario": "ping46[reply(id1),reply(id1)]", "schedule": []int{0, 0, 1, 0, 2}}, 4)
}

func init() {
	Registry["C19"] = &Driver{
		Plan: func(tier string) []core.Job {
			return append(shardJobs("ping", 12, false, 1700), shardJobs("ping.race", 4, true, 1700)...)
		},
		Run:    c19Run,
		Replay: concReplayer(func() []*concScenario { return c19Scenarios(3) }),
	}
}
