package props

import (
	"bytes"
	"encoding/hex"
	"fmt"
	"net"
	"net/netip"
	"reflect"

	"harness/core"
	"harness/env"
	"harness/refnet"

	"github.com/irai/packet"
	"github.com/irai/packet/verifshim/vfuel"
)

// C02: Parse and the views decode frames exactly as an RFC reference decoder.

type c02Replay struct {
	Kind string `json:"kind"` // frame | getter
	Hex  string `json:"hex"`
	Tail string `json:"tail,omitempty"` // frame: bytes in the spare capacity of the receive buffer
	Type string `json:"type,omitempty"`
}

// c02Frame compares Session.Parse with the reference decoder on one frame.
func c02Frame(c *core.Ctx, st *c01State, class string, f []byte) {
	in := make([]byte, len(f))
	copy(in, f)
	c02FrameIn(c, st, class, in, nil)
}

// c02FrameIn: in is the receive buffer (its spare capacity holds tail, the bytes that followed in a longer frame).
func c02FrameIn(c *core.Ctx, st *c01State, class string, in []byte, tail []byte) {
	c.Count("evaluations", 1)
	c.Count("frames", 1)
	want := refnet.Classify(in)
	var frame packet.Frame
	var err error
	perr := func() (perr any) {
		defer func() { perr = recover() }()
		vfuel.Set(opFuel)
		frame, err = st.session().Parse(in)
		return nil
	}()
	rp := c02Replay{Kind: "frame", Hex: hex.EncodeToString(in), Tail: hex.EncodeToString(tail)}
	if perr != nil {
		st.reset()
		c.Violate("decode-panic|"+class, fmt.Sprintf("Parse panics: %v frame=%x", perr, trunc(in, 64)), rp)
		return
	}
	if want.Err != refnet.Yes {
		c.Distinct(in)
	}
	switch {
	case want.Err == refnet.Yes && err == nil:
		c.Violate("decode-error-missing|"+want.Stage, fmt.Sprintf("%s: the reference reports a truncated/inconsistent %s header but Parse returned no error; frame=%x", class, want.Stage, trunc(in, 80)), rp)
		return
	case want.Err == refnet.No && err != nil:
		c.Violate("decode-error-spurious|"+want.Stage, fmt.Sprintf("%s: Parse returned %v but every mandatory header is complete and consistent; frame=%x", class, err, trunc(in, 80)), rp)
		return
	}
	if err != nil || want.Err == refnet.Yes {
		return
	}
	var diffs []string
	add := func(field string, got, exp any) {
		if !reflect.DeepEqual(got, exp) {
			diffs = append(diffs, fmt.Sprintf("%s=%v want %v", field, got, exp))
		}
	}
	add("PayloadID", int(frame.PayloadID), want.PayloadID)
	add("SrcAddr.MAC", []byte(frame.SrcAddr.MAC), want.SrcMAC[:])
	add("DstAddr.MAC", []byte(frame.DstAddr.MAC), want.DstMAC[:])
	add("SrcAddr.IP", frame.SrcAddr.IP, want.SrcIP)
	add("DstAddr.IP", frame.DstAddr.IP, want.DstIP)
	add("SrcAddr.Port", frame.SrcAddr.Port, want.SrcPort)
	add("DstAddr.Port", frame.DstAddr.Port, want.DstPort)
	add("HasIP", frame.HasIP(), want.OffIP4 != 0 || want.OffIP6 != 0)
	viewOff := func(name string, v []byte, exp int) {
		if exp == 0 {
			if v != nil {
				diffs = append(diffs, name+" present, want absent")
			}
			return
		}
		if v == nil {
			diffs = append(diffs, name+" absent, want offset "+itoa(exp))
			return
		}
		if exp < len(in) { // a view that starts exactly at the end carries no pointer information
			if got := offOf(in, v); got != exp {
				diffs = append(diffs, fmt.Sprintf("%s starts at %d want %d", name, got, exp))
			}
		}
		if !inside(in, v) {
			diffs = append(diffs, name+" extends beyond the frame")
		}
	}
	viewOff("IP4", frame.IP4(), want.OffIP4)
	viewOff("IP6", frame.IP6(), want.OffIP6)
	viewOff("UDP", frame.UDP(), want.OffUDP)
	viewOff("TCP", frame.TCP(), want.OffTCP)
	viewOff("Payload", frame.Payload(), want.OffPayload)
	end := len(in)
	if want.PayloadEnd != 0 {
		end = want.PayloadEnd // an IPv4 datagram ends at its total length: Ethernet padding is not payload
	}
	if p := frame.Payload(); want.OffPayload < end && !bytes.Equal(p, in[want.OffPayload:end]) {
		diffs = append(diffs, fmt.Sprintf("Payload is %d bytes long, the reference payload (offset %d up to the end of the datagram at %d) is %d bytes long, or the bytes differ", len(p), want.OffPayload, end, end-want.OffPayload))
	} else if want.OffPayload >= end && len(frame.Payload()) != 0 {
		diffs = append(diffs, fmt.Sprintf("Payload is %d bytes long, the reference payload is empty (the datagram ends at %d)", len(frame.Payload()), end))
	}
	if len(diffs) > 0 {
		c.Violate("decode-mismatch|"+firstWord(diffs[0]), fmt.Sprintf("%s: %v frame=%x", class, diffs, trunc(in, 80)), rp)
	}
}

func firstWord(s string) string {
	for i := 0; i < len(s); i++ {
		if s[i] == '=' || s[i] == ' ' {
			return s[:i]
		}
	}
	return s
}

// norm converts a getter result into the normal form of refnet.Fields.
func norm(v reflect.Value) any {
	switch v.Kind() {
	case reflect.Int, reflect.Int8, reflect.Int16, reflect.Int32, reflect.Int64:
		return v.Int()
	case reflect.Uint, reflect.Uint8, reflect.Uint16, reflect.Uint32, reflect.Uint64:
		return int64(v.Uint())
	case reflect.Bool:
		return v.Bool()
	case reflect.Slice:
		if v.Type().Elem().Kind() == reflect.Uint8 {
			if v.IsNil() {
				return []byte(nil)
			}
			return append([]byte{}, v.Bytes()...)
		}
	case reflect.Struct:
		if a, ok := v.Interface().(netip.Addr); ok {
			return a.String()
		}
	}
	return fmt.Sprint(v.Interface())
}

func eqNorm(a, b any) bool {
	ab, aok := a.([]byte)
	bb, bok := b.([]byte)
	if aok && bok {
		return bytes.Equal(ab, bb) // nil and empty are the same observable value
	}
	return reflect.DeepEqual(a, b)
}

// c02Getters compares every referenced getter of a valid view instance.
func c02Getters(c *core.Ctx, spec viewSpec, view []byte) {
	refs := refnet.Fields[spec.name]
	if refs == nil {
		return
	}
	c.Count("evaluations", 1)
	val := reflect.ValueOf(spec.mk(view))
	valid := false
	func() {
		defer func() { recover() }()
		valid = isValid(val)
	}()
	if !valid {
		return
	}
	c.Count("getter_instances", 1)
	c.Distinct(append([]byte(spec.name), view...))
	for name, ref := range refs {
		m := val.MethodByName(name)
		if !m.IsValid() {
			c.Violate("getter-missing|"+spec.name+"."+name, "getter disappeared: "+spec.name+"."+name, nil)
			continue
		}
		var got, want any
		var perr any
		func() {
			defer func() { perr = recover() }()
			got = norm(m.Call(nil)[0])
		}()
		var rerr any
		func() {
			defer func() { rerr = recover() }()
			want = ref(view)
		}()
		rp := c02Replay{Kind: "getter", Type: spec.name, Hex: hex.EncodeToString(view)}
		if rerr != nil {
			// the reference itself cannot read the field: the instance should not have been valid
			c.Violate("getter-valid-but-unreadable|"+spec.name+"."+name, fmt.Sprintf("%s.IsValid()==nil but the RFC position of %s lies outside the %d byte view (%v) view=%x", spec.name, name, len(view), rerr, trunc(view, 48)), rp)
			continue
		}
		if perr != nil {
			c.Violate("getter-panic|"+spec.name+"."+name, fmt.Sprintf("%s.%s panics: %v view=%x", spec.name, name, perr, trunc(view, 48)), rp)
			continue
		}
		c.Count("getter_calls", 1)
		if !eqNorm(got, want) {
			c.Violate("getter-value|"+spec.name+"."+name, fmt.Sprintf("%s.%s=%v want %v (RFC position) view=%x", spec.name, name, short(got), short(want), trunc(view, 48)), rp)
		}
	}
}

func short(v any) any {
	if b, ok := v.([]byte); ok && len(b) > 24 {
		return fmt.Sprintf("%x...(%d bytes)", b[:24], len(b))
	}
	if b, ok := v.([]byte); ok {
		return fmt.Sprintf("%x", b)
	}
	return v
}

func c02Run(c *core.Ctx, args []string) {
	c.Res.Level = "exploration"
	c.Res.Rule = "(1) structural frames over the whole classification table: EtherType alphabet x source MAC class; IPv4 and IPv6 x all 256 protocol numbers x MAC class; all ordered pairs of the 19 port alphabet in both families; all 16 IPv4 IHL values x TotalLen boundary set; all 16 TCP data offsets x segment lengths; every truncation (with exact capacity, and at the start of a read buffer that still holds the rest of the frame) and 1..46 bytes of trailing padding of one frame per class; (2) getter sweep: for each view every 16-bit window takes all 65536 values (quick: windows of the first 24 bytes; thorough: every window) with two backgrounds. Oracle: independent table driven decoder refnet. distinct non-trivial = frames the reference accepts / valid view instances"
	c.Res.Assumptions = []string{"IPv4: transport headers and the payload are bounded by the total length (Ethernet padding is not payload); IPv6 frames with bytes after the payload length: either verdict accepted", "802.1Q/802.1ad frames are expected as PayloadEther with the payload after the tags (no decapsulation demanded)", "ICMP4Redirect (not an RFC 792 redirect layout) and LLDP TLV accessors are outside the getter sweep"}
	st := &c01State{}
	unit := 0
	next := func() bool { unit++; return c.Mine(unit - 1) }
	macs := srcMACs()
	// (1a) ethertypes
	if next() {
		for _, et := range etherTypes {
			for _, nm := range macs {
				c02Frame(c, st, "ethertype", refnet.Eth(bcast, nm.m, et, pat(46, byte(et))))
			}
		}
		for et := 0; et < 65536; et += 1 {
			if et%257 == 0 || (et >= 1490 && et <= 1540) || (et >= 0x8800 && et <= 0x8900) {
				c02Frame(c, st, "ethertype-scan", refnet.Eth(bcast, env.MAC1, uint16(et), pat(46, byte(et))))
			}
		}
	}
	// (1b) all protocol numbers, both families
	for proto := 0; proto < 256; proto++ {
		if !next() {
			continue
		}
		for _, nm := range macs {
			for _, plen := range []int{0, 7, 8, 19, 20, 28, 60} {
				body := pat(plen, byte(proto))
				if plen >= 20 {
					body[12] = 0x50 // a consistent TCP data offset so that the TCP class is accepted
				}
				c02Frame(c, st, "ip4-proto", refnet.Eth(bcast, nm.m, 0x0800, refnet.IP4(ip4a, ip4b, byte(proto), body, refnet.IP4Opt{})))
				c02Frame(c, st, "ip6-proto", refnet.Eth(bcast, nm.m, 0x86dd, refnet.IP6(lla1, lla2, byte(proto), 64, body, -1)))
			}
		}
	}
	// (1c) all ordered port pairs
	for _, sp := range portAlphabet {
		if !next() {
			continue
		}
		for _, dp := range portAlphabet {
			u := refnet.UDP(sp, dp, pat(12, byte(dp)))
			c02Frame(c, st, "udp4-ports", refnet.Eth(bcast, env.MAC1, 0x0800, refnet.IP4(ip4a, ip4b, 17, u, refnet.IP4Opt{})))
			c02Frame(c, st, "udp6-ports", refnet.Eth(bcast, env.MAC1, 0x86dd, refnet.IP6(gua1, lla2, 17, 64, u, -1)))
			c02Frame(c, st, "udp4-ports-nopayload", refnet.Eth(bcast, env.MAC1, 0x0800, refnet.IP4(ip4a, ip4b, 17, refnet.UDP(sp, dp, nil), refnet.IP4Opt{})))
		}
	}
	// all 65536 destination ports with a neutral source (thorough) / every 13th (quick)
	for blk := 0; blk < 16; blk++ {
		if !next() {
			continue
		}
		step := 13
		if c.Thorough() {
			step = 1
		}
		for p := blk * 4096; p < (blk+1)*4096; p += step {
			u := refnet.UDP(40000, uint16(p), pat(4, 1))
			c02Frame(c, st, "udp4-dport-scan", refnet.Eth(bcast, env.MAC1, 0x0800, refnet.IP4(ip4a, ip4b, 17, u, refnet.IP4Opt{})))
			u = refnet.UDP(uint16(p), 40000, pat(4, 1))
			c02Frame(c, st, "udp4-sport-scan", refnet.Eth(bcast, env.MAC1, 0x0800, refnet.IP4(ip4a, ip4b, 17, u, refnet.IP4Opt{})))
		}
	}
	// (1d) IPv4 IHL x TotalLen
	if next() {
		udp := refnet.UDP(40000, 40001, pat(12, 3))
		for ihl := 0; ihl < 16; ihl++ {
			physical := 20
			if ihl > 5 {
				physical = ihl * 4
			}
			L := physical + len(udp)
			for _, tot := range []int{0, 1, 19, 20, 4*ihl - 1, 4 * ihl, 4*ihl + 1, L - 1, L, L + 1, 1500, 65535} {
				if tot < 0 {
					continue
				}
				o := refnet.IP4Opt{IHL: ihl, TotalLen: tot}
				if tot == 0 {
					o.TotalLen = 0
					o.IHL = ihl
				}
				if ihl > 5 {
					o.Options = make([]byte, ihl*4-20)
				}
				pkt := refnet.IP4(ip4a, ip4b, 17, udp, o)
				if tot == 0 {
					pkt[2], pkt[3] = 0, 0
				}
				if ihl == 0 {
					pkt[0] = 0x40
				}
				c02Frame(c, st, "ip4-ihl-totlen", refnet.Eth(bcast, env.MAC1, 0x0800, pkt))
			}
		}
		// IPv6 payload length
		body := refnet.UDP(40000, 40001, pat(12, 3))
		for _, pl := range []int{0, 1, 7, 8, len(body) - 1, len(body), len(body) + 1, 1500, 65535} {
			c02Frame(c, st, "ip6-payloadlen", refnet.Eth(bcast, env.MAC1, 0x86dd, refnet.IP6(lla1, lla2, 17, 64, body, pl)))
		}
	}
	// (1e) TCP data offsets
	if next() {
		for doff := 0; doff < 16; doff++ {
			for _, extra := range []int{0, 4, 20, 40} {
				seg := make([]byte, 20+extra)
				copy(seg, refnet.TCP(40000, 80, 1, 2, 5, 0x10, nil))
				seg[12] = byte(doff << 4)
				c02Frame(c, st, "tcp4-doff", refnet.Eth(bcast, env.MAC1, 0x0800, refnet.IP4(ip4a, ip4b, 6, seg, refnet.IP4Opt{})))
				c02Frame(c, st, "tcp6-doff", refnet.Eth(bcast, env.MAC1, 0x86dd, refnet.IP6(lla1, lla2, 6, 64, seg, -1)))
			}
		}
	}
	// (1f) truncations and padding of one frame per class
	tmpls := frameTemplates(c.Thorough())
	for _, t := range tmpls {
		if !next() {
			continue
		}
		if len(t.Frame) > 400 {
			continue
		}
		for n := 0; n <= len(t.Frame); n++ {
			c02Frame(c, st, "trunc:"+t.Name, t.Frame[:n])
			if n < len(t.Frame) { // the same bytes at the start of a reused read buffer that still holds the rest
				whole := append([]byte(nil), t.Frame...)
				c02FrameIn(c, st, "trunc+tail:"+t.Name, whole[:n], t.Frame[n:])
			}
		}
		for padn := 1; padn <= 46; padn++ {
			c02Frame(c, st, "pad:"+t.Name, append(append([]byte{}, t.Frame...), make([]byte, padn)...))
		}
	}
	// (2) getter sweep
	for _, spec := range viewSpecs() {
		if refnet.Fields[spec.name] == nil {
			continue
		}
		base := spec.valid()
		maxw := len(base) - 1
		if !c.Thorough() && maxw > 24 {
			maxw = 24
		}
		for w := 0; w < maxw; w++ {
			if !next() {
				continue
			}
			for _, bg := range []int{0, 1} {
				view := make([]byte, len(base), len(base))
				copy(view, base)
				if bg == 1 {
					for i := range view {
						view[i] ^= 0xa5
					}
					// keep the validity gates of the base instance
					for _, o := range spec.control {
						if o < len(view) {
							view[o] = base[o]
						}
					}
				}
				for v := 0; v < 65536; v++ {
					view[w], view[w+1] = byte(v>>8), byte(v)
					c02Getters(c, spec, view)
				}
			}
		}
	}
	// (3) the option accessor of a router solicitation: RFC 4861 4.1 - the options follow the 4 reserved bytes
	if next() {
		slla := refnet.NDPOption(1, []byte{0x02, 0xaa, 0xbb, 0xcc, 0xdd, 0x01})
		unk := refnet.NDPOption(14, []byte{1, 2, 3, 4, 5, 6})
		for name, opts := range map[string][]byte{"slla": slla, "slla+unknown": append(append([]byte(nil), slla...), unk...), "unknown+slla": append(append([]byte(nil), unk...), slla...), "unknown+unknown+slla": append(append(append([]byte(nil), unk...), unk...), slla...), "none": nil} {
			c.Count("evaluations", 1)
			msg := append([]byte{133, 0, 0, 0, 0, 0, 0, 0}, opts...)
			rs := packet.ICMP6RouterSolicitation(msg)
			got, err := rs.Options()
			want := []byte(nil)
			if opts != nil {
				want = []byte{0x02, 0xaa, 0xbb, 0xcc, 0xdd, 0x01}
			}
			if err != nil || !bytes.Equal(got.SourceLLA.MAC, want) {
				c.Violate("getter-mismatch|ICMP6RouterSolicitation.Options", fmt.Sprintf("router solicitation with options [%s]: Options() gives source link-layer address %x (err %v), the option at offset 8.. says %x", name, []byte(got.SourceLLA.MAC), err, want), c02Replay{Kind: "rsopt", Hex: hex.EncodeToString(msg)})
			}
			c.Distinct(msg)
		}
	}
	c.Sample(map[string]any{"kind": "frame", "class": "udp4-ports", "src_port": 443, "dst_port": 53, "expect": "PayloadSSL (443 precedes 53)"}, 8)
	c.Sample(map[string]any{"kind": "getter", "type": "IP4", "window": "bytes 6-7", "values": "all 65536"}, 8)
	st.reset()
	_ = net.IP{}
}

func c02Replayer(data []byte) string {
	var r c02Replay
	if jsonUnmarshal(data, &r) != nil {
		return ""
	}
	in, _ := hex.DecodeString(r.Hex)
	c := core.NewCtx("C02", "quick", "replay", 0, 1, "")
	switch r.Kind {
	case "frame":
		if tail, _ := hex.DecodeString(r.Tail); len(tail) > 0 {
			whole := append(append([]byte(nil), in...), tail...)
			c02FrameIn(c, &c01State{}, "replay", whole[:len(in)], tail)
		} else {
			c02Frame(c, &c01State{}, "replay", in)
		}
	case "rsopt":
		got, err := packet.ICMP6RouterSolicitation(in).Options()
		want := []byte(nil)
		if len(in) > 8 {
			want = []byte{0x02, 0xaa, 0xbb, 0xcc, 0xdd, 0x01}
		}
		if err != nil || !bytes.Equal(got.SourceLLA.MAC, want) {
			return fmt.Sprintf("getter-mismatch|ICMP6RouterSolicitation.Options: source link-layer address %x (err %v), want %x", []byte(got.SourceLLA.MAC), err, want)
		}
	case "getter":
		for _, spec := range viewSpecs() {
			if spec.name == r.Type {
				c02Getters(c, spec, in)
			}
		}
	}
	if len(c.Res.Violations) > 0 {
		return c.Res.Violations[0].Sig + ": " + c.Res.Violations[0].What
	}
	return ""
}

func init() {
	Registry["C02"] = &Driver{
		Plan:   func(tier string) []core.Job { return shardJobs("decode", 16, false, 1500) },
		Run:    c02Run,
		Replay: c02Replayer,
	}
}
