package props

import (
	"bytes"
	"fmt"
	"net"
	"net/netip"
	"os"
	"sort"
	"strings"
	"time"

	"harness/core"
	"harness/env"
	"harness/eseq"
	"harness/refnet"

	"github.com/irai/packet"
	"github.com/irai/packet/verifshim/venv"
	"github.com/irai/packet/verifshim/vfuel"
	"github.com/irai/packet/verifshim/vrand"
	"github.com/irai/packet/verifshim/vsched"
)

// Session exploration shared by C04 (model), C05 (invariants), C06 (notifications), C10 (aliasing), C07 (frames).

var (
	sMACs    = [][]byte{env.HostMAC, env.RouterMAC, env.McastMAC, env.MAC1, env.MAC2}
	sMACName = []string{"own", "router", "mcast", "c1", "c2"}
	sIPs     = []netip.Addr{
		netip.MustParseAddr("192.168.0.10"), netip.MustParseAddr("192.168.0.11"), netip.MustParseAddr("8.8.8.8"), netip.MustParseAddr("0.0.0.0"),
		netip.MustParseAddr("192.168.0.129"), netip.MustParseAddr("192.168.0.1"),
		netip.MustParseAddr("fe80::10"), netip.MustParseAddr("fe80::11"), netip.MustParseAddr("2001:db8::10"), netip.MustParseAddr("ff02::1"),
	}
	sIPName = []string{"a", "b", "x", "zero", "hostip", "routerip", "l1", "l2", "g1", "m6"}
)

const (
	mOwn, mRouter, mMcast, mC1, mC2                    = 0, 1, 2, 3, 4
	iA, iB, iX, iZero, iHost, iRtr, iL1, iL2, iG1, iM6 = 0, 1, 2, 3, 4, 5, 6, 7, 8, 9
)

type sEvent struct {
	Kind string // f4 f6 arp dhcpf dhcpupd setoffer capture release name tick
	MAC  int
	MAC2 int // arp: sender MAC
	IP   int
	Name string
	Src  int // name source 0..4
	Dur  time.Duration
}

func (e sEvent) String() string {
	switch e.Kind {
	case "f4", "f6":
		if e.Kind == "f4" && e.MAC2 == 1 {
			return fmt.Sprintf("f4(%s,%s->multicast group)", sMACName[e.MAC], sIPName[e.IP])
		}
		return fmt.Sprintf("%s(%s,%s)", e.Kind, sMACName[e.MAC], sIPName[e.IP])
	case "arp":
		return fmt.Sprintf("arp(eth=%s,sha=%s,spa=%s)", sMACName[e.MAC], sMACName[e.MAC2], sIPName[e.IP])
	case "dhcpf":
		return fmt.Sprintf("dhcpframe(%s)", sMACName[e.MAC])
	case "dhcpupd":
		return fmt.Sprintf("DHCPv4Update(%s,%s,%q)", sMACName[e.MAC], sIPName[e.IP], e.Name)
	case "setoffer":
		return fmt.Sprintf("SetDHCPv4IPOffer(%s,%s)", sMACName[e.MAC], sIPName[e.IP])
	case "capture", "release":
		return fmt.Sprintf("%s(%s)", e.Kind, sMACName[e.MAC])
	case "name":
		return fmt.Sprintf("name(%s,src=%d,%q)", sIPName[e.IP], e.Src, e.Name)
	case "tick":
		return fmt.Sprintf("tick(%s)", e.Dur)
	}
	return e.Kind
}

func sessAlphabet(offline, purge time.Duration) []sEvent {
	var a []sEvent
	for _, m := range []int{mC1, mC2} {
		for _, ip := range []int{iA, iB, iX, iZero} {
			a = append(a, sEvent{Kind: "f4", MAC: m, IP: ip})
		}
	}
	a = append(a, sEvent{Kind: "f4", MAC: mOwn, IP: iA}, sEvent{Kind: "f4", MAC: mRouter, IP: iRtr}, sEvent{Kind: "f4", MAC: mRouter, IP: iX}, sEvent{Kind: "f4", MAC: mMcast, IP: iA})
	for _, m := range []int{mC1, mC2} {
		for _, ip := range []int{iL1, iG1} {
			a = append(a, sEvent{Kind: "f6", MAC: m, IP: ip})
		}
	}
	a = append(a, sEvent{Kind: "f6", MAC: mC1, IP: iL2}, sEvent{Kind: "f6", MAC: mRouter, IP: iG1}, sEvent{Kind: "f6", MAC: mRouter, IP: iL2}, sEvent{Kind: "f6", MAC: mC1, IP: iM6}, sEvent{Kind: "f6", MAC: mOwn, IP: iL1})
	a = append(a,
		sEvent{Kind: "arp", MAC: mC1, MAC2: mC1, IP: iA}, sEvent{Kind: "arp", MAC: mC1, MAC2: mC1, IP: iB}, sEvent{Kind: "arp", MAC: mC2, MAC2: mC2, IP: iA},
		sEvent{Kind: "arp", MAC: mC1, MAC2: mC2, IP: iB}, sEvent{Kind: "arp", MAC: mC1, MAC2: mC1, IP: iX}, sEvent{Kind: "arp", MAC: mC1, MAC2: mC1, IP: iZero},
		sEvent{Kind: "arp", MAC: mOwn, MAC2: mOwn, IP: iA},
		// a forged ARP packet of our own (ethernet source = this host, ARP sender = a client) and the converse
		sEvent{Kind: "arp", MAC: mOwn, MAC2: mC1, IP: iA}, sEvent{Kind: "arp", MAC: mC1, MAC2: mOwn, IP: iB},
		sEvent{Kind: "f4", MAC: mC1, IP: iA, MAC2: 1}, sEvent{Kind: "f4", MAC: mC1, IP: iB, MAC2: 1}, // IPv4 frames to a multicast group
		sEvent{Kind: "dhcpf", MAC: mC1},
		sEvent{Kind: "dhcpupd", MAC: mC1, IP: iA, Name: "n2"}, // a DHCP message that renames the station
		sEvent{Kind: "dhcpupd", MAC: mC1, IP: iA}, sEvent{Kind: "dhcpupd", MAC: mC1, IP: iA, Name: "n1"}, sEvent{Kind: "dhcpupd", MAC: mC1, IP: iB, Name: "n1"}, sEvent{Kind: "dhcpupd", MAC: mC2, IP: iA}, sEvent{Kind: "dhcpupd", MAC: mC1, IP: iZero},
		sEvent{Kind: "setoffer", MAC: mC1, IP: iA}, sEvent{Kind: "setoffer", MAC: mC1, IP: iB},
		sEvent{Kind: "capture", MAC: mC1}, sEvent{Kind: "release", MAC: mC1}, sEvent{Kind: "capture", MAC: mRouter},
		sEvent{Kind: "name", IP: iA, Src: 1, Name: "n1"}, sEvent{Kind: "name", IP: iA, Src: 1, Name: "n2"}, sEvent{Kind: "name", IP: iA, Src: 2, Name: "n1"}, sEvent{Kind: "name", IP: iL1, Src: 3, Name: "n1"}, sEvent{Kind: "name", IP: iA, Src: 4, Name: "n1"},
		sEvent{Kind: "name", IP: iA, Src: 1, Name: "n1+m"}, sEvent{Kind: "name", IP: iA, Src: 1, Name: "n2+m"}, // a rename that repeats the known model
		sEvent{Kind: "tick", Dur: time.Minute}, sEvent{Kind: "tick", Dur: offline + time.Second}, sEvent{Kind: "tick", Dur: purge + time.Second},
	)
	return a
}

// ---- reference model (from the property statement) ----

type mHost struct {
	mac    int
	ip     netip.Addr
	online bool
	last   int64
}

type sessModel struct {
	hosts     map[netip.Addr]*mHost
	macs      map[int]bool // MAC entries that exist
	macHosts  map[int][]netip.Addr
	offlineDL int64
	purgeDL   int64
	home      netip.Prefix
}

func newSessModel(now int64, offline, purge time.Duration) *sessModel {
	m := &sessModel{hosts: map[netip.Addr]*mHost{}, macs: map[int]bool{}, macHosts: map[int][]netip.Addr{}, offlineDL: int64(offline), purgeDL: int64(purge), home: netip.MustParsePrefix("192.168.0.0/24")}
	m.hosts[sIPs[iHost]] = &mHost{mac: mOwn, ip: sIPs[iHost], online: true, last: now + int64(365*24*time.Hour)}
	m.hosts[sIPs[iRtr]] = &mHost{mac: mRouter, ip: sIPs[iRtr], online: true, last: now}
	m.macs[mOwn], m.macs[mRouter] = true, true
	m.macHosts[mOwn] = []netip.Addr{sIPs[iHost]}
	m.macHosts[mRouter] = []netip.Addr{sIPs[iRtr]}
	return m
}

func (m *sessModel) remove(ip netip.Addr) {
	h := m.hosts[ip]
	if h == nil {
		return
	}
	delete(m.hosts, ip)
	l := m.macHosts[h.mac]
	for i, x := range l {
		if x == ip {
			l = append(l[:i:i], l[i+1:]...)
			break
		}
	}
	m.macHosts[h.mac] = l
	if len(l) == 0 {
		delete(m.macs, h.mac) // removed together with its then-empty MAC entry
		delete(m.macHosts, h.mac)
	}
}

// seen applies "a frame of mac with address ip was observed at now". Returns true when something changed.
func (m *sessModel) seen(mac int, ip netip.Addr, now int64) bool {
	changed := false
	if h := m.hosts[ip]; h != nil && h.mac != mac {
		m.remove(ip) // an address claimed by another MAC is re-bound to it
		changed = true
	}
	h := m.hosts[ip]
	if h == nil {
		h = &mHost{mac: mac, ip: ip}
		m.hosts[ip] = h
		m.macs[mac] = true
		m.macHosts[mac] = append(m.macHosts[mac], ip)
		changed = true
	}
	h.last = now
	if !h.online {
		h.online = true
		changed = true
		if ip.Is4() { // seeing a MAC on a new IPv4 address marks that MAC's other IPv4 addresses offline
			for _, o := range m.macHosts[mac] {
				if o != ip && o.Is4() {
					m.hosts[o].online = false
				}
			}
		}
	}
	return changed
}

func (m *sessModel) purge(now int64) bool {
	changed := false
	var ips []netip.Addr
	for ip := range m.hosts {
		ips = append(ips, ip)
	}
	sort.Slice(ips, func(i, j int) bool { return ips[i].Less(ips[j]) })
	for _, ip := range ips {
		h := m.hosts[ip]
		switch {
		case !h.online && h.last < now-m.purgeDL:
			m.remove(ip)
			changed = true
		case h.online && h.last < now-m.offlineDL:
			h.online = false
			changed = true
		}
	}
	return changed
}

func (m *sessModel) triples() []string {
	var t []string
	for _, h := range m.hosts {
		t = append(t, fmt.Sprintf("%s/%s/%v", sMACName[h.mac], h.ip, h.online))
	}
	sort.Strings(t)
	return t
}

func macIndex(mac net.HardwareAddr) int {
	for i, m := range sMACs {
		if bytes.Equal(m, mac) {
			return i
		}
	}
	return -1
}

func macLabel(mac net.HardwareAddr) string {
	if i := macIndex(mac); i >= 0 {
		return sMACName[i]
	}
	return mac.String()
}

// ---- execution ----

type sessOpts struct {
	offline time.Duration
	purge   time.Duration
	probe   time.Duration
	poison  int // 0 = private immutable buffers; 1 = shared buffer scribbled with 0x00; 2 = with 0xa5
	// fullChan: the application never reads the notification channel (it is full from the start); only the tracking
	// rules (class "model") are judged - notifications cannot be
	fullChan bool
}

type sessStep struct {
	notes  []string // notifications received in this step (canonical strings)
	frames []string // hex of emitted frames
	snap   string   // canonical table snapshot
	tick   bool
}

type sessResult struct {
	steps      []sessStep
	key        string
	violations []string // "class|sig|what"
	predicted  bool
	exec       *vsched.Execution
	sent       []env.Sent
}

func (e sEvent) frame() []byte {
	switch e.Kind {
	case "f4":
		if e.MAC2 == 1 { // sent to a multicast group (mDNS): the station is seen all the same
			return refnet.Eth(env.McastMAC, sMACs[e.MAC], 0x0800, refnet.IP4(sIPs[e.IP], netip.MustParseAddr("224.0.0.251"), 17, refnet.UDP(40000, 40001, []byte("payload-4")), refnet.IP4Opt{}))
		}
		return refnet.Eth(env.HostMAC, sMACs[e.MAC], 0x0800, refnet.IP4(sIPs[e.IP], sIPs[iHost], 17, refnet.UDP(40000, 40001, []byte("payload-4")), refnet.IP4Opt{}))
	case "f6":
		return refnet.Eth(env.HostMAC, sMACs[e.MAC], 0x86dd, refnet.IP6(sIPs[e.IP], env.HostLLA, 17, 64, refnet.UDP(40000, 40001, []byte("payload-6")), -1))
	case "arp":
		return refnet.Eth(bcast, sMACs[e.MAC], 0x0806, refnet.ARP(1, sMACs[e.MAC2], sIPs[e.IP], make([]byte, 6), sIPs[iRtr]))
	case "dhcpf":
		return refnet.Eth(bcast, sMACs[e.MAC], 0x0800, refnet.IP4(sIPs[iZero], ip4bc, 17, refnet.UDP(68, 67, dhcpDiscover(sMACs[e.MAC], 0x11223344)), refnet.IP4Opt{}))
	}
	return nil
}

func nameEntry(n packet.NameEntry) string {
	if n.Name == "" && n.Model == "" && n.Manufacturer == "" && n.OS == "" {
		return ""
	}
	return n.Name + "~" + n.Model + "~" + n.Manufacturer + "~" + n.OS
}

func noteContent(online bool, names [5]string, router bool) string {
	return fmt.Sprintf("online=%v names=%v router=%v", online, names, router)
}

// ownNames are the names learned for this very address (the notification carries the MAC level merge).
func ownNames(h *packet.Host) string {
	return nameEntry(h.DHCP4Name) + "|" + nameEntry(h.MDNSName) + "|" + nameEntry(h.SSDPName) + "|" + nameEntry(h.LLMNRName) + "|" + nameEntry(h.NBNSName)
}

// hostContent is the notification content that corresponds to the tracked state of a host.
func hostContent(h *packet.Host) string {
	e := h.MACEntry
	return noteContent(h.Online, [5]string{nameEntry(e.DHCP4Name), nameEntry(e.MDNSName), nameEntry(e.SSDPName), nameEntry(h.LLMNRName), nameEntry(e.NBNSName)}, e.IsRouter)
}

// sessSnapshot is the canonical form of the tracked state (also the BFS key).
func sessSnapshot(s *packet.Session, now time.Time) string {
	var sb strings.Builder
	for _, e := range s.MACTable.Table {
		fmt.Fprintf(&sb, "M[%s ip4=%v offer=%v gua=%v lla=%v on=%v cap=%v rtr=%v n=%s|%s|%s|%s|%s:", macLabel(e.MAC), e.IP4, e.IP4Offer, e.IP6GUA, e.IP6LLA, e.Online, e.Captured, e.IsRouter,
			nameEntry(e.DHCP4Name), nameEntry(e.MDNSName), nameEntry(e.SSDPName), nameEntry(e.LLMNRName), nameEntry(e.NBNSName))
		for _, h := range e.HostList {
			age := now.Sub(h.LastSeen)
			if age < -time.Hour {
				age = -1
			}
			fmt.Fprintf(&sb, " H(%v on=%v dirty=%v age=%d st=%d n=%s|%s|%s|%s|%s)", h.Addr.IP, h.Online, h.Dirty(), int64(age), h.HuntStage,
				nameEntry(h.DHCP4Name), nameEntry(h.MDNSName), nameEntry(h.SSDPName), nameEntry(h.LLMNRName), nameEntry(h.NBNSName))
		}
		sb.WriteString("]")
	}
	fmt.Fprintf(&sb, " C=%d", len(s.C))
	return sb.String()
}

// sessInvariant evaluates the C05 structural invariant on the exported tables.
func sessInvariant(s *packet.Session) string {
	seenMAC := map[string]bool{}
	count := 0
	for _, e := range s.MACTable.Table {
		if seenMAC[string(e.MAC)] {
			return fmt.Sprintf("duplicate MAC entry %s", e.MAC)
		}
		seenMAC[string(e.MAC)] = true
		seenHost := map[netip.Addr]bool{}
		for _, h := range e.HostList {
			count++
			if seenHost[h.Addr.IP] {
				return fmt.Sprintf("host %v listed twice under %s", h.Addr.IP, e.MAC)
			}
			seenHost[h.Addr.IP] = true
			if s.HostTable.Table[h.Addr.IP] != h {
				return fmt.Sprintf("host %v listed under %s is not the index entry for its address", h.Addr.IP, e.MAC)
			}
			if h.MACEntry != e {
				return fmt.Sprintf("host %v listed under %s points to another MAC entry", h.Addr.IP, e.MAC)
			}
			if !bytes.Equal(h.Addr.MAC, e.MAC) {
				return fmt.Sprintf("host %v has MAC %s but is listed under %s", h.Addr.IP, h.Addr.MAC, e.MAC)
			}
			if h.Online && !e.Online {
				return fmt.Sprintf("host %v is online but its MAC entry %s is offline", h.Addr.IP, e.MAC)
			}
		}
	}
	for ip, h := range s.HostTable.Table {
		if h.Addr.IP != ip {
			return fmt.Sprintf("host %v indexed under %v", h.Addr.IP, ip)
		}
		found := false
		for _, e := range s.MACTable.Table {
			if e == h.MACEntry {
				found = true
				n := 0
				for _, x := range e.HostList {
					if x == h {
						n++
					}
				}
				if n != 1 {
					return fmt.Sprintf("host %v is listed %d times by its MAC entry", ip, n)
				}
			}
		}
		if !found {
			return fmt.Sprintf("host %v points to a MAC entry that is not in the MAC table", ip)
		}
	}
	if count != len(s.HostTable.Table) {
		return fmt.Sprintf("host index has %d entries, MAC entries list %d hosts", len(s.HostTable.Table), count)
	}
	return ""
}

// implTriples reads the tracked triples through the public API.
func implTriples(s *packet.Session) (triples []string, problems []string) {
	byIP := map[string]bool{}
	for _, h := range s.GetHosts() {
		t := fmt.Sprintf("%s/%s/%v", macLabel(h.MACEntry.MAC), h.Addr.IP, h.Online)
		triples = append(triples, t)
		byIP[t] = true
		if !bytes.Equal(h.Addr.MAC, h.MACEntry.MAC) {
			problems = append(problems, fmt.Sprintf("GetHosts reports %v with MAC %s, its MAC entry is %s", h.Addr.IP, h.Addr.MAC, h.MACEntry.MAC))
		}
	}
	sort.Strings(triples)
	// FindIP, IPAddrs, FindByMAC, FindMACEntry must agree with GetHosts
	for _, ip := range sIPs {
		h := s.FindIP(ip)
		has := false
		for t := range byIP {
			if strings.Contains(t, "/"+ip.String()+"/") {
				has = true
			}
		}
		if (h != nil) != has {
			problems = append(problems, fmt.Sprintf("FindIP(%v) present=%v but GetHosts present=%v", ip, h != nil, has))
		}
		if h != nil && !byIP[fmt.Sprintf("%s/%s/%v", macLabel(h.MACEntry.MAC), h.Addr.IP, h.Online)] {
			problems = append(problems, fmt.Sprintf("FindIP(%v) disagrees with GetHosts", ip))
		}
	}
	for mi, mac := range sMACs {
		var viaAddrs, viaFind, viaHosts []string
		for _, a := range s.IPAddrs(mac) {
			viaAddrs = append(viaAddrs, a.IP.String())
		}
		for _, a := range s.FindByMAC(mac) {
			viaFind = append(viaFind, a.IP.String())
		}
		for _, h := range s.GetHosts() {
			if bytes.Equal(h.MACEntry.MAC, mac) {
				viaHosts = append(viaHosts, h.Addr.IP.String())
			}
		}
		sort.Strings(viaAddrs)
		sort.Strings(viaFind)
		sort.Strings(viaHosts)
		if strings.Join(viaAddrs, ",") != strings.Join(viaHosts, ",") || strings.Join(viaFind, ",") != strings.Join(viaHosts, ",") {
			problems = append(problems, fmt.Sprintf("addresses of %s: IPAddrs=%v FindByMAC=%v GetHosts=%v", sMACName[mi], viaAddrs, viaFind, viaHosts))
		}
		if e := s.FindMACEntry(mac); e == nil && len(viaHosts) > 0 {
			problems = append(problems, fmt.Sprintf("FindMACEntry(%s)==nil but the MAC has hosts", sMACName[mi]))
		}
	}
	return triples, problems
}

func sessNIC() *packet.NICInfo { return env.DefaultNIC() }

// runSession executes one history under the sequential scheduler with virtual time.
func runSession(alpha []sEvent, hist []int, o sessOpts) *sessResult {
	res := &sessResult{}
	viol := func(class, sig, what string) {
		if len(res.violations) < 4 {
			res.violations = append(res.violations, class+"|"+sig+"|"+what)
		}
	}
	var conn *env.Conn
	res.exec = vsched.Run(vsched.Config{Mode: vsched.ModeSeq}, func() {
		packet.VerifReset()
		vrand.Reset()
		venv.Reset()
		vfuel.Set(5_000_000)
		env.DirtyPool() // every history starts with recycled (non-zero) frame buffers in the library's pool
		var s *packet.Session
		s, conn = env.NewSession(sessNIC(), packet.Config{ProbeDeadline: o.probe, OfflineDeadline: o.offline, PurgeDeadline: o.purge})
		vsched.WaitIdle()
		if o.fullChan {
			for len(s.C) < cap(s.C) {
				s.C <- packet.Notification{}
			}
		}
		model := newSessModel(vsched.NowNanos(), o.offline, o.purge)
		lastNote := map[netip.Addr]string{} // content of the last notification per address (prefixed by the MAC)
		lastOwn := map[netip.Addr]string{}  // the address' own learned names when it was last notified
		// the session's own entry is seeded as online by NewSession and never "first seen" (frames from our own MAC are
		// not tracked); the router entry is seeded too, but the router IS first seen when its first frame arrives: that
		// frame must produce the online notification (with the router flag) like for any other address
		lastNote[sIPs[iHost]] = "own online=true"
		shared := make([]byte, 2048)
		failed := false
		for si, ei := range hist {
			if failed {
				break
			}
			ev := alpha[ei]
			step := sessStep{tick: ev.Kind == "tick"}
			var frameHost *packet.Host
			var frameMAC net.HardwareAddr
			onlineBefore := map[netip.Addr]bool{}
			if ev.Kind == "tick" {
				for _, h := range s.GetHosts() {
					onlineBefore[h.Addr.IP] = h.Online
				}
			}
			isFrame := false
			predicted := false
			probeOK := map[netip.Addr]bool{} // addresses purge may probe during this step
			fail := func(class, sig, what string) {
				if o.fullChan && class != "model" && class != "panic" {
					return
				}
				failed = true
				viol(class, sig, fmt.Sprintf("step %d %s: %s", si+1, ev, what))
			}
			func() {
				defer func() {
					if e := recover(); e != nil {
						fail("panic", "session-panic@"+panicSite(), fmt.Sprint(e))
					}
				}()
				vfuel.Set(5_000_000)
				now := vsched.NowNanos()
				switch ev.Kind {
				case "f4", "f6", "arp", "dhcpf":
					raw := ev.frame()
					buf := raw
					if o.poison > 0 {
						buf = shared[:len(raw)]
						copy(buf, raw)
					} else {
						buf = append([]byte(nil), raw...)
					}
					frame, err := s.Parse(buf)
					if err != nil {
						fail("model", "parse-error", err.Error())
						return
					}
					s.Notify(frame)
					isFrame = true
					frameHost = frame.Host
					frameMAC = packet.CopyMAC(frame.SrcAddr.MAC)
					if ev.Kind == "dhcpf" && frame.Host == nil {
						if off := s.DHCPv4IPOffer(frameMAC); off.IsValid() {
							frameHost = s.FindIP(off)
						}
					}
					if o.poison > 0 {
						fill := byte(0x00)
						if o.poison == 2 {
							fill = 0xa5
						}
						for i := range shared {
							shared[i] = fill
						}
					}
					// model
					d := refnet.Classify(raw)
					var own, rtr [6]byte
					copy(own[:], env.HostMAC)
					copy(rtr[:], env.RouterMAC)
					if mac, ip, ok := d.HostCandidate(own, rtr, model.home); ok {
						predicted = model.seen(macIndex(mac[:]), ip, now)
					}
				case "dhcpupd":
					name := packet.NameEntry{Type: "dhcp4", Name: ev.Name}
					var mac net.HardwareAddr = sMACs[ev.MAC]
					if o.poison > 0 {
						copy(shared, sMACs[ev.MAC])
						mac = shared[:6]
					}
					// as in the packet loop: Parse(dhcp frame) ; handler calls DHCPv4Update ; Notify(frame)
					raw := sEvent{Kind: "dhcpf", MAC: ev.MAC}.frame()
					fbuf := append([]byte(nil), raw...)
					if o.poison > 0 {
						fbuf = shared[64 : 64+len(raw)]
						copy(fbuf, raw)
					}
					frame, perr := s.Parse(fbuf)
					if perr != nil {
						fail("model", "parse-error", perr.Error())
						return
					}
					err := s.DHCPv4Update(mac, sIPs[ev.IP], name)
					s.Notify(frame)
					isFrame = true
					frameMAC = packet.CopyMAC(sMACs[ev.MAC])
					// the notification belongs to the address the DHCP message announced (looked up by that address, not
					// through whatever offer the session remembers for the MAC)
					if !sIPs[ev.IP].IsUnspecified() {
						frameHost = s.FindIP(sIPs[ev.IP])
					} else if off := s.DHCPv4IPOffer(frameMAC); off.IsValid() {
						frameHost = s.FindIP(off) // a refused update: the frame is an ordinary DHCP frame of that MAC
					}
					if o.poison > 0 {
						for i := range shared {
							shared[i] = 0xa5
						}
					}
					if sIPs[ev.IP].IsUnspecified() {
						if err == nil {
							fail("model", "dhcpupdate-unspecified", "DHCPv4Update accepted the unspecified address")
						}
					} else {
						predicted = model.seen(ev.MAC, sIPs[ev.IP], now)
					}
				case "setoffer":
					s.SetDHCPv4IPOffer(sMACs[ev.MAC], sIPs[ev.IP], packet.NameEntry{})
					model.macs[ev.MAC] = true
				case "capture":
					err := s.Capture(sMACs[ev.MAC])
					_ = err
					model.macs[ev.MAC] = true
				case "release":
					s.Release(sMACs[ev.MAC])
				case "name":
					if h := s.FindIP(sIPs[ev.IP]); h != nil {
						n := packet.NameEntry{Type: "t", Name: ev.Name}
						if i := strings.Index(ev.Name, "+"); i >= 0 {
							n.Name, n.Model = ev.Name[:i], ev.Name[i+1:]
						}
						switch ev.Src {
						case 0:
							h.UpdateDHCP4Name(n)
						case 1:
							h.UpdateMDNSName(n)
						case 2:
							h.UpdateSSDPName(n)
						case 3:
							h.UpdateLLMNRName(n)
						case 4:
							h.UpdateNBNSName(n)
						}
						// a later notification with the same content as the previous one is not a duplicate: the name changed
						// in between (possibly back to what it was)
						if prev, ok := lastNote[sIPs[ev.IP]]; ok && !strings.HasSuffix(prev, " (name updated since)") {
							lastNote[sIPs[ev.IP]] = prev + " (name updated since)"
						}
					}
				case "tick":
					vsched.Advance(int64(ev.Dur))
					// the addresses purge may probe during this step: online before the step and silent for longer than
					// the probe deadline at its end
					for _, mh := range model.hosts {
						if mh.online && mh.last < vsched.NowNanos()-int64(o.probe) {
							probeOK[mh.ip] = true
						}
					}
					predicted = model.purge(vsched.NowNanos())
				}
				vsched.WaitIdle()
			}()
			if failed {
				break
			}
			if si == len(hist)-1 {
				res.predicted = predicted
			}
			// drain notifications
			var received []packet.Notification
			for len(s.C) > 0 && !o.fullChan {
				received = append(received, <-s.C)
			}
			for _, f := range conn.Take() {
				step.frames = append(step.frames, fmt.Sprintf("%x", f.Data))
				res.sent = append(res.sent, f)
				// C07: the probes sent by purge carry the addresses of the hosts being probed
				info := refnet.DecodeSent(f.Data, env.HostMAC)
				switch {
				case info.Kind == "arp" && info.ARPOp == 1:
					if !probeOK[info.ARPTpa] || info.ARPSpa != sIPs[iHost] || !bytes.Equal(info.ARPSha[:], env.HostMAC) {
						fail("frame", "probe-target", fmt.Sprintf("ARP probe sender=(%x,%v) target=%v: purge probes tracked hosts that were silent for the probe deadline %v from the host address", info.ARPSha, info.ARPSpa, info.ARPTpa, keysOf(probeOK)))
					}
				case info.Kind == "ns":
					if !probeOK[info.Target] {
						fail("frame", "probe-target", fmt.Sprintf("neighbour solicitation for %v: purge probes tracked hosts that were silent for the probe deadline %v", info.Target, keysOf(probeOK)))
					}
				case info.Kind == "icmp6-echo" && info.ICMPType == 128:
					if !probeOK[info.DstIP] {
						fail("frame", "probe-target", fmt.Sprintf("echo request to %v: purge probes tracked hosts that were silent for the probe deadline %v", info.DstIP, keysOf(probeOK)))
					}
				}
			}
			// ---- C05 invariant
			if inv := sessInvariant(s); inv != "" {
				fail("invariant", "table-invariant", inv)
			}
			func() {
				defer func() {
					if e := recover(); e != nil {
						fail("invariant", "printtable-panic", fmt.Sprint(e))
					}
				}()
				s.PrintTable()
			}()
			// ---- C04 model
			got, problems := implTriples(s)
			want := model.triples()
			if strings.Join(got, " ") != strings.Join(want, " ") {
				fail("model", "triples", fmt.Sprintf("tracked (MAC,IP,online) %v, reference model %v", got, want))
			}
			for _, p := range problems {
				fail("model", "api-disagreement", p)
			}
			for mi, mac := range sMACs {
				if (s.FindMACEntry(mac) != nil) != model.macs[mi] {
					fail("model", "mac-entry", fmt.Sprintf("MAC entry of %s present=%v, model %v", sMACName[mi], s.FindMACEntry(mac) != nil, model.macs[mi]))
				}
			}
			// ---- C06 notifications
			for _, n := range received {
				content := noteContent(n.Online, [5]string{nameEntry(n.DHCP4Name), nameEntry(n.MDNSName), nameEntry(n.SSDPName), nameEntry(n.LLMNRName), nameEntry(n.NBNSName)}, n.IsRouter)
				step.notes = append(step.notes, fmt.Sprintf("%s/%v %s", macLabel(n.Addr.MAC), n.Addr.IP, content))
				if h := s.FindIP(n.Addr.IP); h != nil {
					if hc := hostContent(h); hc != content || !bytes.Equal(h.MACEntry.MAC, n.Addr.MAC) {
						fail("notify", "content", fmt.Sprintf("notification for %v says {%s} but the tracked state is {%s}", n.Addr.IP, content, hc))
					}
				} else if n.Online {
					fail("notify", "content-ghost", fmt.Sprintf("online notification for %v which is not tracked", n.Addr.IP))
				}
				own := ""
				if h := s.FindIP(n.Addr.IP); h != nil {
					own = ownNames(h)
				}
				full := macLabel(n.Addr.MAC) + " " + content
				if prev, ok := lastNote[n.Addr.IP]; ok && prev == full && lastOwn[n.Addr.IP] == own {
					fail("notify", "duplicate", fmt.Sprintf("notification for %v repeats the previous one {%s} although nothing about it changed", n.Addr.IP, full))
				}
				lastNote[n.Addr.IP] = full
				lastOwn[n.Addr.IP] = own
			}
			// the transitions that are notified are the transitions of the reference model (statement: online when first
			// seen or back from offline, offline when aged out or superseded by a new IPv4 address of the same MAC)
			lastInStep := map[netip.Addr]bool{}
			for _, n := range received {
				lastInStep[n.Addr.IP] = n.Online
			}
			for _, ip := range sIPs {
				on, notified := lastInStep[ip]
				if !notified {
					continue
				}
				if mh := model.hosts[ip]; mh != nil && mh.online != on {
					fail("notify", "transition-not-in-model", fmt.Sprintf("notification online=%v for %v but by the rules of the statement the address is online=%v", on, ip, mh.online))
				}
			}
			checkOfflineReported := func(h *packet.Host, why string) {
				if prev, ok := lastNote[h.Addr.IP]; ok && !h.Online && strings.Contains(prev, " online=true") {
					fail("notify", "lost-offline", fmt.Sprintf("%v is offline (%s) but the last notification about it said online", h.Addr.IP, why))
				}
			}
			if isFrame && frameHost != nil {
				ln := lastNote[frameHost.Addr.IP]
				if strings.Contains(ln, " online=true") != frameHost.Online || (ln == "" && frameHost.Online) {
					fail("notify", "lost", fmt.Sprintf("after Notify for a frame of %v the last notification {%s} does not reflect online=%v", frameHost.Addr.IP, ln, frameHost.Online))
				} else if ln != "" && !strings.HasPrefix(ln, "own ") && !strings.HasPrefix(ln, "router ") || lastOwn[frameHost.Addr.IP] != "" {
					if lastOwn[frameHost.Addr.IP] != ownNames(frameHost) {
						fail("notify", "lost-name", fmt.Sprintf("after Notify for a frame of %v its learned names {%s} differ from those last notified {%s}", frameHost.Addr.IP, ownNames(frameHost), lastOwn[frameHost.Addr.IP]))
					}
				}
				if frameHost.Addr.IP.Is4() {
					for _, sib := range frameHost.MACEntry.HostList {
						if sib != frameHost && sib.Addr.IP.Is4() {
							checkOfflineReported(sib, "superseded by "+frameHost.Addr.IP.String())
						}
					}
				}
				// order: offline of a sibling precedes the online of the new address
				onlineAt := -1
				for i, n := range received {
					if n.Addr.IP == frameHost.Addr.IP && n.Online {
						onlineAt = i
					}
				}
				for i, n := range received {
					if !n.Online && n.Addr.IP != frameHost.Addr.IP && bytes.Equal(n.Addr.MAC, frameMAC) && onlineAt >= 0 && i > onlineAt {
						fail("notify", "order", fmt.Sprintf("offline notification of %v arrives after the online notification of %v", n.Addr.IP, frameHost.Addr.IP))
					}
				}
			}
			if isFrame && frameHost == nil && len(received) > 0 {
				fail("notify", "spurious", fmt.Sprintf("%d notification(s) for a frame that is not tracked", len(received)))
			}
			if ev.Kind == "tick" {
				still := map[netip.Addr]bool{}
				for _, h := range s.GetHosts() {
					still[h.Addr.IP] = true
					if onlineBefore[h.Addr.IP] && !h.Online {
						checkOfflineReported(h, "aged out")
					}
				}
				// an address that was online before the step and is gone after it went offline on the way
				for _, ip := range sIPs {
					if onlineBefore[ip] && !still[ip] {
						if prev, ok := lastNote[ip]; ok && strings.Contains(prev, " online=true") {
							fail("notify", "lost-offline", fmt.Sprintf("%v was removed while the last notification about it said online", ip))
						}
					}
				}
			}
			step.snap = sessSnapshot(s, time.Unix(0, vsched.NowNanos()))
			res.steps = append(res.steps, step)
			res.key = step.snap
		}
		if len(hist) == 0 {
			res.key = sessSnapshot(s, time.Unix(0, vsched.NowNanos()))
		}
		// C07 monitor: every emitted frame is well formed and sourced from the host MAC
		for _, f := range res.sent {
			info := refnet.DecodeSent(f.Data, env.HostMAC)
			for _, p := range info.Problems {
				viol("frame", "sent-"+info.Kind+"-"+firstWords(p, 3), fmt.Sprintf("emitted %s frame: %s frame=%x", info.Kind, p, trunc(f.Data, 64)))
			}
		}
	})
	if res.exec.Outcome != vsched.Complete {
		viol("panic", "session-"+res.exec.Outcome.String(), fmt.Sprintf("execution ended with %s: %v blocked=%v", res.exec.Outcome, firstLine(res.exec.Panics), res.exec.Blocked))
	}
	return res
}

func keysOf(m map[netip.Addr]bool) []string {
	var l []string
	for k := range m {
		l = append(l, k.String())
	}
	sort.Strings(l)
	return l
}

func firstLine(p []string) string {
	if len(p) == 0 {
		return ""
	}
	s := p[0]
	if i := strings.Index(s, "\n"); i > 0 {
		s = s[:i]
	}
	return s
}

func firstWords(s string, n int) string {
	f := strings.Fields(s)
	if len(f) > n {
		f = f[:n]
	}
	return strings.Join(f, "-")
}

type sessReplay struct {
	Kind    string   `json:"kind"`
	Hist    []int    `json:"hist"`
	Events  []string `json:"events"`
	Offline int64    `json:"offline"`
	Purge   int64    `json:"purge"`
	Probe   int64    `json:"probe"`
	Poison  int      `json:"poison"`
	Class   string   `json:"class"`
}

// sessExplore runs the BFS for one property; class selects which oracle's violations are reported.
func sessExplore(c *core.Ctx, class string) {
	o := sessOpts{offline: packet.DefaultOfflineDeadline, purge: packet.DefaultPurgeDeadline, probe: packet.DefaultProbeDeadline}
	alpha := sessAlphabet(o.offline, o.purge)
	depth := 3
	if c.Thorough() {
		depth = 4
	}
	if v := c.Args["depth"]; v != 0 {
		depth = v
	}
	find := func(k string, m, ip int, name string) int {
		for i, e := range alpha {
			if e.Kind == k && e.MAC == m && e.IP == ip && e.Name == name {
				return i
			}
		}
		panic("no event " + k)
	}
	tick := func(d time.Duration) int {
		for i, e := range alpha {
			if e.Kind == "tick" && e.Dur == d {
				return i
			}
		}
		panic("no tick")
	}
	f4c1a, f4c1b, f4c2a := find("f4", mC1, iA, ""), find("f4", mC1, iB, ""), find("f4", mC2, iA, "")
	tOff, tMin, tPurge := tick(o.offline+time.Second), tick(time.Minute), tick(o.purge+time.Second)
	seeds := [][]int{
		{f4c1a, f4c1b},                  // two addresses on one MAC, the first one offline
		{f4c1a, f4c2a},                  // re-bound address
		{f4c1a, tMin, tMin, tMin, tMin}, // aged to just below the offline deadline
		{f4c1a, tOff},                   // offline by ageing
		{f4c1a, tOff, tPurge},           // purged
		{f4c1a, find("f6", mC1, iL1, ""), find("dhcpupd", mC1, iB, "n1")},
		{f4c1a, find("name", 0, iA, "n1+m"), f4c1a}, // a host whose name and model were learned and notified
		// delete of a middle element: c1 (two addresses, the MAC looked up last) sits between the router and c2 in the MAC
		// table and is purged while c2, seen again in between, stays
		{f4c1a, find("f6", mC2, iL1, ""), f4c1b, tOff, find("f6", mC2, iL1, ""), tPurge},
	}
	ex := &eseq.Explorer{NEvents: len(alpha), Depth: depth, Shard: c.Shard, NShards: c.NShards, Seeds: seeds}
	if c.Deadline > 0 {
		ex.Deadline = time.Unix(c.Deadline-20, 0)
	}
	var frames int64
	ex.Run = func(hist []int) eseq.StepResult {
		c.Progress(fmt.Sprint(hist))
		r := runSession(alpha, hist, o)
		frames += int64(len(r.sent))
		sr := eseq.StepResult{Key: r.key, Predicted: r.predicted}
		if n := len(r.steps); n > 0 {
			sr.Obs = strings.Join(r.steps[n-1].notes, ";") + "#" + strings.Join(r.steps[n-1].frames, ";")
		}
		for _, v := range r.violations {
			// a history is pruned only by violations of this property's own oracle (or a panic)
			if strings.HasPrefix(v, class+"|") || strings.HasPrefix(v, "panic|") {
				sr.Violations = append(sr.Violations, v)
			}
		}
		if class == "model" && len(sr.Violations) == 0 {
			o2 := o
			o2.poison = 2
			for _, v := range runSession(alpha, hist, o2).violations {
				if strings.HasPrefix(v, "model|") {
					sr.Violations = append(sr.Violations, v+" (history delivered through one reused receive buffer)")
				}
			}
		}
		if class == "model" && len(sr.Violations) == 0 && len(hist) <= 2 {
			// the same (short) history for an application that never reads the notification channel: tracking, ageing and
			// removal must not depend on the channel having room
			o2 := o
			o2.fullChan = true
			for _, v := range runSession(alpha, hist, o2).violations {
				if strings.HasPrefix(v, "model|") {
					sr.Violations = append(sr.Violations, v+" (notification channel full: the application does not read it)")
				}
			}
		}
		if class == "invariant" && len(sr.Violations) == 0 {
			// the same history as a zero-copy packet loop delivers it: one receive buffer, overwritten after every call
			o2 := o
			o2.poison = 2
			for _, v := range runSession(alpha, hist, o2).violations {
				if strings.HasPrefix(v, "invariant|") {
					sr.Violations = append(sr.Violations, v+" (history delivered through one reused receive buffer)")
				}
			}
		}
		if class == "alias" && len(sr.Violations) == 0 {
			poisons := []int{2}
			if c.Thorough() {
				poisons = []int{1, 2}
			}
			for _, poison := range poisons {
				o2 := o
				o2.poison = poison
				r2 := runSession(alpha, hist, o2)
				if d := diffTranscripts(r, r2); d != "" {
					sr.Violations = append(sr.Violations, "alias|retained-alias|"+d)
					break
				}
			}
		}
		return sr
	}
	ex.OnState = func(h uint64) { c.DistinctHash(h) }
	ex.OnViolation = func(hist []int, r eseq.StepResult) {
		for _, v := range r.Violations {
			parts := strings.SplitN(v, "|", 3)
			// each property reports the violations of its own oracle; panics belong to every property
			if parts[0] != class && parts[0] != "panic" {
				continue
			}
			var evs []string
			for _, i := range hist {
				evs = append(evs, alpha[i].String())
			}
			c.Violate(parts[0]+"|"+parts[1], fmt.Sprintf("history %v: %s", evs, parts[2]),
				sessReplay{Kind: "session", Hist: hist, Events: evs, Offline: int64(o.offline), Purge: int64(o.purge), Probe: int64(o.probe), Class: class})
		}
	}
	ex.Explore()
	c.Count("states", ex.States)
	c.Count("transitions", ex.Transitions)
	c.Count("evaluations", ex.Transitions)
	c.Count("model_predicted_change", ex.Predicted)
	c.Count("distinct_observations_local", int64(len(ex.ObsDistinct)))
	c.Count("frames_monitored", frames)
	c.Res.Counters["max_depth"] = int64(ex.MaxDepth)
	if ex.CapHit != "" {
		c.Cap(ex.CapHit)
	}
	c.Res.Bound = fmt.Sprintf("depth %d from the initial state and from %d scripted non-initial states; alphabet of %d events", depth, len(seeds), len(alpha))
	var evs []string
	for _, i := range seeds[0] {
		evs = append(evs, alpha[i].String())
	}
	c.Sample(map[string]any{"history": append(evs, alpha[tOff].String()), "explanation": "a history is a list of events; each is executed on a fresh real Session under virtual time"}, 4)
	var names []string
	for _, e := range alpha {
		names = append(names, e.String())
	}
	c.Sample(map[string]any{"alphabet": names}, 4)
}

// diffTranscripts compares two runs of the same history step by step.
func diffTranscripts(a, b *sessResult) string {
	if len(a.steps) != len(b.steps) {
		return fmt.Sprintf("runs have %d and %d steps", len(a.steps), len(b.steps))
	}
	for i := range a.steps {
		x, y := a.steps[i], b.steps[i]
		xn, yn := append([]string(nil), x.notes...), append([]string(nil), y.notes...)
		sort.Strings(xn) // the order of purge notifications follows Go's randomised map iteration
		sort.Strings(yn)
		if strings.Join(xn, ";") != strings.Join(yn, ";") {
			return fmt.Sprintf("step %d: notifications differ: private buffers %v, reused buffer %v", i+1, x.notes, y.notes)
		}
		xf, yf := append([]string(nil), x.frames...), append([]string(nil), y.frames...)
		sort.Strings(xf) // probe order follows Go's randomised map iteration
		sort.Strings(yf)
		// probe frames sent by purge depend on Go's randomised map iteration (order, and how many are sent before the
		// probe loop returns at the first link-local host): they are not compared; the addresses they carry come
		// from the tables, which are compared below
		if !x.tick && strings.Join(xf, ";") != strings.Join(yf, ";") {
			return fmt.Sprintf("step %d: emitted frames differ", i+1)
		}
		if x.snap != y.snap {
			return fmt.Sprintf("step %d: tables differ: private buffers {%s} reused buffer {%s}", i+1, x.snap, y.snap)
		}
	}
	return ""
}

func sessReplayer(data []byte) string {
	var r sessReplay
	if jsonUnmarshal(data, &r) != nil {
		return ""
	}
	o := sessOpts{offline: time.Duration(r.Offline), purge: time.Duration(r.Purge), probe: time.Duration(r.Probe)}
	alpha := sessAlphabet(o.offline, o.purge)
	res := runSession(alpha, r.Hist, o)
	if os.Getenv("VERIF_DEBUG") != "" {
		for i, st := range res.steps {
			fmt.Fprintf(os.Stderr, "step %d %s\n  notes=%v\n  frames=%d\n  snap=%s\n", i+1, alpha[r.Hist[i]], st.notes, len(st.frames), st.snap)
		}
	}
	for _, v := range res.violations {
		parts := strings.SplitN(v, "|", 3)
		if parts[0] == r.Class || parts[0] == "panic" {
			return v
		}
	}
	if r.Class == "model" {
		o2 := o
		o2.poison = 2
		for _, v := range runSession(alpha, r.Hist, o2).violations {
			if strings.HasPrefix(v, "model|") {
				return v
			}
		}
	}
	if r.Class == "model" && len(r.Hist) <= 2 {
		o2 := o
		o2.fullChan = true
		for _, v := range runSession(alpha, r.Hist, o2).violations {
			if strings.HasPrefix(v, "model|") {
				return v
			}
		}
	}
	if r.Class == "invariant" {
		o2 := o
		o2.poison = 2
		for _, v := range runSession(alpha, r.Hist, o2).violations {
			if strings.HasPrefix(v, "invariant|") {
				return v
			}
		}
	}
	if r.Class == "alias" {
		for _, poison := range []int{1, 2} {
			o2 := o
			o2.poison = poison
			if d := diffTranscripts(res, runSession(alpha, r.Hist, o2)); d != "" {
				return "alias|" + d
			}
		}
	}
	return ""
}

func sessAssumptions() []string {
	return []string{
		"universe: MACs {own, router, multicast, c1, c2}; IPv4 {two on-LAN, one off-LAN, 0.0.0.0, host, router}; IPv6 {two link-local, one global, one multicast source}; default deadlines (probe 2m, offline 5m, purge 61m)",
		"time is virtual (owned by the scheduler shim); purge runs through the session's own minute ticker goroutine",
		"histories longer than the depth bound are not explored; states are deduplicated by a canonical key that keeps every field that can influence a future observable (ages relative to now)",
	}
}

func sessDriver(id, class, rule string) *Driver {
	return &Driver{
		Plan: func(tier string) []core.Job { return shardJobs("sess", 16, false, 1700) },
		Run: func(c *core.Ctx, args []string) {
			c.Res.Level = "model_checking"
			c.Res.Rule = rule
			c.Res.Assumptions = sessAssumptions()
			sessExplore(c, class)
		},
		Replay: sessReplayer,
	}
}

func init() {
	Registry["C04"] = sessDriver("C04", "model", "explicit-state BFS over event histories (frames from 5 MAC classes x 10 addresses, ARP incl. sender!=ethernet source, DHCP frames, DHCPv4Update, offers, capture/release, name updates, virtual-time ticks); after every transition FindIP/GetHosts/IPAddrs/FindByMAC/FindMACEntry are compared with the reference model built from the rules of the statement")
	Registry["C05"] = sessDriver("C05", "invariant", "same exploration as C04, every history delivered twice (private buffers, and one receive buffer overwritten after every call as a zero-copy packet loop does); after every transition the structural invariant (index<->MAC list bijection, same pointer identity, unique MACs, host MAC == entry MAC, online host => online MAC entry, PrintTable does not panic) is evaluated on the exported tables")
	Registry["C06"] = sessDriver("C06", "notify", "same exploration as C04 with Notify after every Parse and the channel drained after every step; exactly-once accounting per address: content equals tracked state, no duplicate, nothing lost for the frame's host, superseded/aged addresses reported offline, offline-before-online order, every notified transition is a transition of the reference model")
}
