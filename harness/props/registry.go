// Package props contains one driver per property.
package props

import (
	"harness/core"
)

// Driver of one property.
type Driver struct {
	// Plan returns the worker jobs for a tier.
	Plan func(tier string) []core.Job
	// Run executes one job.
	Run func(c *core.Ctx, args []string)
	// Replay re-executes a recorded violation; returns a description if it reproduces ("" otherwise).
	Replay func(replay []byte) string
}

var Registry = map[string]*Driver{}

// shardJobs builds n jobs "-job name -shard i -nshards n".
// ReplaySig is the signature recorded in the replay artefact being re-executed ("" when unknown).
var ReplaySig string

func shardJobs(name string, n int, race bool, timeout int) []core.Job {
	var jobs []core.Job
	for i := 0; i < n; i++ {
		jobs = append(jobs, core.Job{Args: []string{"-job", name, "-shard", itoa(i), "-nshards", itoa(n)}, Race: race, Timeout: timeout})
	}
	return jobs
}

func itoa(i int) string {
	if i == 0 {
		return "0"
	}
	s := ""
	neg := i < 0
	if neg {
		i = -i
	}
	for i > 0 {
		s = string(rune('0'+i%10)) + s
		i /= 10
	}
	if neg {
		s = "-" + s
	}
	return s
}
