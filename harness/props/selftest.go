package props

import (
	"fmt"
	"sync"

	"harness/core"
	"harness/econc"

	"github.com/irai/packet/verifshim/vsched"
	vsync "github.com/irai/packet/verifshim/vsync"
)

// Engine self tests: the explorer must find the seeded toy bugs at the expected bound and nothing else.

type toy struct {
	mu  vsync.Mutex
	mu2 vsync.Mutex
	rw  vsync.RWMutex
	x   int
}

func toyLostUpdate(prefix []int) (*vsched.Execution, string) {
	t := &toy{}
	var final int
	ex := vsched.Run(vsched.Config{Mode: vsched.ModeConc, Prefix: prefix}, func() {
		var wg sync.WaitGroup // real waitgroup is fine: harness only, joined through scheduler-visible locks below
		_ = wg
		done := make(chan bool, 2)
		for i := 0; i < 2; i++ {
			vsched.Go(func() {
				t.mu.Lock()
				v := t.x
				t.mu.Unlock()
				t.mu.Lock()
				t.x = v + 1
				t.mu.Unlock()
				vsched.Send(done, true)
			})
		}
		vsched.Recv(done)
		vsched.Recv(done)
		t.mu.Lock()
		final = t.x
		t.mu.Unlock()
	})
	return ex, fmt.Sprintf("x=%d", final)
}

func toyLockOrder(prefix []int) (*vsched.Execution, string) {
	t := &toy{}
	ex := vsched.Run(vsched.Config{Mode: vsched.ModeConc, Prefix: prefix}, func() {
		done := make(chan bool, 2)
		vsched.Go(func() {
			t.mu.Lock()
			t.mu2.Lock()
			t.mu2.Unlock()
			t.mu.Unlock()
			vsched.Send(done, true)
		})
		vsched.Go(func() {
			t.mu2.Lock()
			t.mu.Lock()
			t.mu.Unlock()
			t.mu2.Unlock()
			vsched.Send(done, true)
		})
		vsched.Recv(done)
		vsched.Recv(done)
	})
	return ex, ex.Outcome.String()
}

func toyWriterPreference(prefix []int) (*vsched.Execution, string) {
	t := &toy{}
	ex := vsched.Run(vsched.Config{Mode: vsched.ModeConc, Prefix: prefix}, func() {
		done := make(chan bool, 2)
		vsched.Go(func() {
			t.rw.RLock()
			t.rw.RLock() // nested read lock: deadlocks if a writer announced in between
			t.rw.RUnlock()
			t.rw.RUnlock()
			vsched.Send(done, true)
		})
		vsched.Go(func() {
			t.rw.Lock()
			t.rw.Unlock()
			vsched.Send(done, true)
		})
		vsched.Recv(done)
		vsched.Recv(done)
	})
	return ex, ex.Outcome.String()
}

// toyRace: two strictly serialised goroutines increment a shared counter; locked selects the protected variant.
func toyRace(locked bool) {
	t := &toy{}
	vsched.Run(vsched.Config{Mode: vsched.ModeConc}, func() {
		done := make(chan bool, 2)
		for i := 0; i < 2; i++ {
			vsched.Go(func() {
				if locked {
					t.mu.Lock()
				}
				t.x++
				if locked {
					t.mu.Unlock()
				}
				vsched.Send(done, true)
			})
		}
		vsched.Recv(done)
		vsched.Recv(done)
	})
}

func exploreToy(run econc.RunFunc, bound int) (*econc.Explorer, map[string]int64) {
	e := &econc.Explorer{Bound: bound}
	e.Explore(run)
	return e, e.Stats.Observations
}

// SelfTest runs the engine self tests; returns a list of failures.
func SelfTest() []string {
	var fails []string
	// lost update: not at bound 0, found at bound 1
	_, obs := exploreToy(toyLostUpdate, 0)
	if obs["x=1"] != 0 || obs["x=2"] == 0 {
		fails = append(fails, fmt.Sprintf("lost update at bound 0: %v", obs))
	}
	e1, obs := exploreToy(toyLostUpdate, 1)
	if obs["x=1"] == 0 || obs["x=2"] == 0 {
		fails = append(fails, fmt.Sprintf("lost update not found at bound 1: %v", obs))
	}
	if e1.Stats.Outcomes["complete"] != e1.Stats.Executions {
		fails = append(fails, fmt.Sprintf("lost update toy: unexpected outcomes %v", e1.Stats.Outcomes))
	}
	e2, _ := exploreToy(toyLockOrder, 1)
	if e2.Stats.Outcomes["deadlock"] == 0 {
		fails = append(fails, fmt.Sprintf("lock order inversion not reported: %v", e2.Stats.Outcomes))
	}
	e3, _ := exploreToy(toyWriterPreference, 1)
	if e3.Stats.Outcomes["deadlock"] == 0 {
		fails = append(fails, fmt.Sprintf("writer preference deadlock not reported: %v", e3.Stats.Outcomes))
	}
	e0, _ := exploreToy(toyWriterPreference, 0)
	if e0.Stats.Outcomes["deadlock"] != 0 {
		fails = append(fails, "writer preference deadlock reported at bound 0")
	}
	// replay determinism: the deadlocking schedule replayed twice gives the same record
	var dl []int
	e4 := &econc.Explorer{Bound: 1}
	e4.OnExec = func(ch []int, cost int, ex *vsched.Execution, o string) bool {
		if ex.Outcome == vsched.Deadlock {
			dl = append([]int(nil), ch...)
			return false
		}
		return true
	}
	e4.Explore(toyLockOrder)
	if dl == nil {
		fails = append(fails, "no deadlock schedule captured")
	} else {
		a, _ := toyLockOrder(dl)
		b, _ := toyLockOrder(dl)
		if a.Outcome != vsched.Deadlock || b.Outcome != vsched.Deadlock || len(a.Points) != len(b.Points) {
			fails = append(fails, "deadlock schedule does not replay deterministically")
		}
		bad, _ := toyLockOrder(append(dl[:len(dl):len(dl)], 99))
		_ = bad
	}
	return fails
}

func init() {
	Registry["SELF"] = &Driver{
		Plan: func(tier string) []core.Job { return []core.Job{{Args: []string{"-job", "self"}}} },
		Run: func(c *core.Ctx, args []string) {
			for _, f := range SelfTest() {
				c.Violate("selftest|"+f, f, nil)
			}
			c.Count("evaluations", 6)
		},
	}
}

// RaceToy is used by the driver: with -race the unlocked variant must make the process exit with code 66.
func RaceToy(locked bool) { toyRace(locked) }
