package props

import (
	"bytes"
	"encoding/hex"
	"fmt"
	"net/netip"
	"sort"
	"strings"
	"time"

	"harness/core"
	"harness/env"
	"harness/refnet"

	"github.com/irai/packet"
	dhcp4 "github.com/irai/packet/handlers/dhcp4_spoofer"
	"github.com/irai/packet/verifshim/vfs"
	"github.com/irai/packet/verifshim/vfuel"
	"github.com/irai/packet/verifshim/vsched"
	"github.com/irai/packet/verifshim/vtime"
)

// C18: DHCP leases survive restart; a damaged lease file cannot crash the server.

type binding struct {
	id  string
	mac string
	ip  netip.Addr
}

func bindingsOf(l []dhcp4.VerifLease, at time.Time) []binding {
	var b []binding
	for _, v := range l {
		// a binding is held when the lease is allocated, or when the client is negotiating again (discover state) while
		// its acknowledged address is still within the lease time
		if v.State == dhcp4.StateAllocated || (v.State == dhcp4.StateDiscover && v.IP.IsValid() && v.DHCPExpiry.After(at)) {
			b = append(b, binding{hex.EncodeToString(v.ClientID), hex.EncodeToString(v.MAC), v.IP})
		}
	}
	sort.Slice(b, func(i, j int) bool { return b[i].id < b[j].id })
	return b
}

// bindingsMatch: got contains every must binding and nothing outside must+maybe.
func bindingsMatch(got, must, maybe []binding) bool {
	has := func(l []binding, x binding) bool {
		for _, y := range l {
			if x == y {
				return true
			}
		}
		return false
	}
	for _, m := range must {
		if !has(got, m) {
			return false
		}
	}
	for _, g := range got {
		if !has(must, g) && !has(maybe, g) {
			return false
		}
	}
	return true
}

func bindingsEqual(a, b []binding) bool {
	if len(a) != len(b) {
		return false
	}
	for i := range a {
		if a[i] != b[i] {
			return false
		}
	}
	return true
}

var seenRewrites = map[string]bool{}

// loadImage constructs a handler from a lease file image on the given session (plain mode, no scheduler needed:
// construction starts no goroutine). Returns the loaded bindings or a failure description.
func loadImage(s *packet.Session, mode dhcp4.Mode, image []byte, present bool) (b []binding, h *dhcp4.Handler, failure string) {
	defer func() {
		if e := recover(); e != nil {
			failure = fmt.Sprintf("panic: %v @%s", e, panicSite())
			if strings.Contains(fmt.Sprint(e), "budget exhausted") {
				failure = "hang: " + failure
			}
		}
	}()
	vfs.Reset()
	if present {
		vfs.Put(dFile, image)
	}
	vfuel.Set(5_000_000)
	h, err := dhcpConfig(mode).New(s)
	if err != nil {
		return nil, nil, "New returned an error: " + err.Error()
	}
	return bindingsOf(h.VerifLeases(), vtime.Now()), h, ""
}

// checkLoaded enforces the clauses that hold for every image: inside the home subnet, with a client identifier.
func checkLoaded(b []binding) string {
	for _, x := range b {
		if !dHome.Contains(x.ip) {
			return fmt.Sprintf("binding %v outside the home subnet loaded", x.ip)
		}
		if x.id == "" {
			return fmt.Sprintf("binding %v without client identifier loaded", x.ip)
		}
	}
	return ""
}

// dhcpPersistence runs the restart, crash point and corruption checks for the state reached by hist.
func dhcpPersistence(c *core.Ctx, alpha []dEvent, hist []int, o dhcpOpts, r *dhcpResult) []string {
	var out []string
	add := func(sig, what string) {
		if len(out) < 3 {
			out = append(out, "persist|"+sig+"|"+what)
		}
	}
	if len(r.written) == 0 {
		return nil
	}
	final := r.written[len(r.written)-1]
	want := bindingsOf(r.leases, time.Unix(0, r.endTime)) // the bindings the running handler holds at the moment of the restart
	restartOK := false
	// every construction below runs inside one controlled execution so that the goroutines of the session are owned by
	// the scheduler (and removed at the end) like everywhere else
	ex := vsched.Run(vsched.Config{Mode: vsched.ModeSeq, BaseTime: r.endTime}, func() {
		concReset()
		s, _ := env.NewSession(dhcpNIC(), packet.Config{})
		vsched.WaitIdle()

		// (i) restart: the new handler holds exactly the acknowledged bindings
		c.Count("restart_checks", 1)
		got, _, failure := loadImage(s, o.mode, final, true)
		switch {
		case failure != "":
			add("restart-"+firstWords(failure, 1), "restart from the saved file: "+failure)
		case !bindingsEqual(got, want):
			add("restart-bindings", fmt.Sprintf("after restart the handler holds %v, the running handler held %v", got, want))
		}
		restartOK = failure == ""

		// (ii) crash points of every rewrite: old image, every byte prefix of the new image, the new image.
		// Rewrites are deduplicated over the whole exploration of this worker by (previous image, new image): the
		// rewrites of a prefix history were already enumerated when that prefix was explored.
		images := map[string]bool{}
		for i, w := range r.written {
			var old []byte
			oldPresent := i > 0
			if i > 0 {
				old = r.written[i-1]
			}
			pairKey := string(old) + "\x00|\x00" + string(w)
			if seenRewrites[pairKey] {
				continue
			}
			seenRewrites[pairKey] = true
			c.Count("rewrites_enumerated", 1)
			// the bindings before and after this rewrite
			bOld, _, _ := loadImage(s, o.mode, old, oldPresent)
			bNew, _, f2 := loadImage(s, o.mode, w, true)
			if f2 != "" {
				add("crash-complete-image", "the complete image does not load: "+f2)
				continue
			}
			step := 1
			if !c.Thorough() && len(w) > 400 {
				step = 3
			}
			isAtomic := i < len(r.atomic) && r.atomic[i]
			var crashImages [][]byte
			if oldPresent {
				crashImages = append(crashImages, old)
			}
			if isAtomic {
				// replaced by rename: a crash leaves the previous image or the complete new image, nothing in between
				c.Count("atomic_rewrites", 1)
			} else {
				for n := 0; n <= len(w); n += step {
					crashImages = append(crashImages, w[:n])
				}
			}
			crashImages = append(crashImages, w)
			for n, img := range crashImages {
				key := string(img)
				if images[key] {
					continue
				}
				images[key] = true
				c.Count("crash_images", 1)
				c.Count("evaluations", 1)
				b, _, fail := loadImage(s, o.mode, img, true)
				class := fmt.Sprintf("crash during rewrite #%d leaving a %d byte image (crash image %d of %d; the new file has %d bytes)", i, len(img), n+1, len(crashImages), len(w))
				if fail != "" {
					add("crash-"+firstWords(fail, 1), class+": "+fail)
					continue
				}
				if v := checkLoaded(b); v != "" {
					add("crash-invalid-binding", class+": "+v)
					continue
				}
				if !bindingsEqual(b, bOld) && !bindingsEqual(b, bNew) && len(b) != 0 {
					add("crash-partial-table", fmt.Sprintf("%s: recovered bindings %v are neither the previous table %v, the new table %v nor empty", class, b, bOld, bNew))
				}
			}
		}

		// (iii) corruption of the final image (scripted seed states, and every state in the thorough tier)
		isSeed := false
		for _, sd := range dhcpSeeds(alpha) {
			if fmt.Sprint(sd) == fmt.Sprint(hist) {
				isSeed = true
			}
		}
		if isSeed || c.Thorough() && len(hist) <= 3 {
			subs := []byte{' ', ':', '-', '0', '9', 'a', '\n', '#', 0xff}
			step := 1
			if !c.Thorough() {
				step = 2
			}
			try := func(kind string, img []byte) {
				c.Count("corrupt_images", 1)
				c.Count("evaluations", 1)
				b, _, fail := loadImage(s, o.mode, img, true)
				if fail != "" {
					add("corrupt-"+firstWords(fail, 1), kind+": "+fail)
					return
				}
				if v := checkLoaded(b); v != "" {
					add("corrupt-invalid-binding", kind+": "+v)
				}
			}
			for off := 0; off < len(final); off += step {
				for _, sb := range subs {
					if final[off] == sb {
						continue
					}
					img := append([]byte(nil), final...)
					img[off] = sb
					try(fmt.Sprintf("byte %d replaced by %q", off, sb), img)
				}
			}
			lines := bytes.SplitAfter(final, []byte("\n"))
			for i := range lines {
				var del, dup []byte
				for j, l := range lines {
					if j != i {
						del = append(del, l...)
					}
					dup = append(dup, l...)
					if j == i {
						dup = append(dup, l...)
					}
				}
				try(fmt.Sprintf("line %d deleted", i+1), del)
				try(fmt.Sprintf("line %d duplicated", i+1), dup)
			}
		}
	})
	if ex.Outcome != vsched.Complete {
		add("persist-"+ex.Outcome.String(), fmt.Sprintf("persistence checks ended with %s: %s", ex.Outcome, firstLine(ex.Panics)))
	}
	if restartOK && len(want) > 0 {
		if v := restartBehaviour(o, final, want, r.endTime); v != "" {
			add("restart-behaviour", v)
		}
	}
	return out
}

// restartBehaviour: the restarted handler acknowledges renewals of the owners and does not offer bound addresses to
// another client.
func restartBehaviour(o dhcpOpts, image []byte, want []binding, at int64) (failure string) {
	ex := vsched.Run(vsched.Config{Mode: vsched.ModeSeq, BaseTime: at}, func() {
		concReset()
		vfuel.Set(20_000_000)
		vfs.Put(dFile, image)
		s, conn := env.NewSession(dhcpNIC(), packet.Config{})
		h, err := dhcpConfig(o.mode).New(s)
		if err != nil {
			failure = "New failed: " + err.Error()
			return
		}
		vsched.WaitIdle()
		conn.Take()
		deliver := func(raw []byte) []refnet.SentInfo {
			buf := make([]byte, len(raw), packet.EthMaxSize)
			copy(buf, raw)
			frame, err := s.Parse(buf)
			if err != nil {
				return nil
			}
			h.ProcessPacket(frame)
			vsched.WaitIdle()
			var replies []refnet.SentInfo
			for _, f := range conn.Take() {
				info := refnet.DecodeSent(f.Data, env.HostMAC)
				if info.Kind == "dhcp4" && info.DHCP != nil && info.SrcPort == 67 && info.DHCP.Op == 2 {
					replies = append(replies, info)
				}
			}
			return replies
		}
		for _, b := range want {
			k := -1
			for i, m := range dClients {
				if hex.EncodeToString(m) == b.mac {
					k = i
				}
			}
			if k < 0 {
				continue
			}
			// renewal from the owner
			acked := false
			for _, r := range deliver(dhcpFrame(k, 3, 0x5000+uint32(k), b.ip, dHost, b.ip, nil)) {
				if r.DHCP.MsgType == 5 && r.DHCP.YIAddr == b.ip {
					acked = true
				}
			}
			if !acked {
				failure = fmt.Sprintf("after restart the renewal of %v by its owner c%d was not acknowledged", b.ip, k+1)
				return
			}
			// a fresh client asking for the bound address must not be offered it
			fresh := refnet.DHCP4Msg{Op: 1, XID: 0x6000, CHAddr: dOther, Options: [][2][]byte{{{53}, {1}}, {{50}, b.ip.AsSlice()}}}.Bytes()
			raw := refnet.Eth(bcast, dOther, 0x0800, refnet.IP4(netip.IPv4Unspecified(), netip.MustParseAddr("255.255.255.255"), 17, refnet.UDP(68, 67, fresh), refnet.IP4Opt{}))
			for _, r := range deliver(raw) {
				if r.DHCP.MsgType == 2 && r.DHCP.YIAddr == b.ip {
					failure = fmt.Sprintf("after restart the bound address %v of c%d was offered to another client", b.ip, k+1)
					return
				}
			}
		}
	})
	if ex.Outcome != vsched.Complete && failure == "" {
		failure = fmt.Sprintf("restart execution ended with %s: %s", ex.Outcome, firstLine(ex.Panics))
	}
	return failure
}

func init() {
	d := dhcpDriver("persist", "for every distinct lease table reached by the C11 exploration (depth 2, thorough 3, plus scripted seeds): (i) restart from the saved file: bindings equal the acknowledged ones, owners' renewals are ACKed, bound addresses are not offered to a fresh client; (ii) every crash image of every rewrite of the lease file on the logging in-memory device (previous image, every byte prefix of the new image, complete image): construction neither panics nor hangs and yields the previous bindings, the new bindings or an empty table, never a binding outside the home subnet or without client id; (iii) every single-byte substitution by {space : - 0 9 a newline # 0xff} and every line deletion/duplication of the saved file of the seed states: no panic, no hang, no binding outside the home subnet or without client id")
	base := d.Run
	d.Run = func(c *core.Ctx, args []string) {
		c.Res.Level = "fault_enumeration"
		base(c, args)
		c.Res.Level = "fault_enumeration"
		c.Res.Counters["distinct_extra"] = c.Res.Counters["crash_images"] + c.Res.Counters["corrupt_images"]
	}
	Registry["C18"] = d
}
