package props

import (
	"bytes"
	"encoding/hex"
	"fmt"
	"net/netip"
	"sort"
	"strings"
	"time"

	"harness/core"
	"harness/env"
	"harness/refnet"

	"github.com/irai/packet"
	dhcp4 "github.com/irai/packet/handlers/dhcp4_spoofer"
	"github.com/irai/packet/verifshim/vfs"
	"github.com/irai/packet/verifshim/vfuel"
	"github.com/irai/packet/verifshim/vsched"
	"github.com/irai/packet/verifshim/vtime"
	"gopkg.in/yaml.v2"
)

// C18: DHCP leases survive restart; a damaged lease file cannot crash the server.

type binding struct {
	id  string
	mac string
	ip  netip.Addr
}

func (b binding) String() string { return fmt.Sprintf("(id %s mac %s ip %s)", b.id, b.mac, b.ip) }

func bindingsOf(l []dhcp4.VerifLease, at time.Time) []binding {
	var b []binding
	for _, v := range l {
		// a binding is held when the lease is allocated, or when the client is negotiating again (discover state) while
		// its acknowledged address is still within the lease time
		// (a lease whose time has run out is not a binding any more, even if the minute ticker has not freed it yet)
		live := v.DHCPExpiry.IsZero() || v.DHCPExpiry.After(at)
		if (v.State == dhcp4.StateAllocated && live) || (v.State == dhcp4.StateDiscover && v.IP.IsValid() && v.DHCPExpiry.After(at)) {
			b = append(b, binding{hex.EncodeToString(v.ClientID), hex.EncodeToString(v.MAC), v.IP})
		}
	}
	sort.Slice(b, func(i, j int) bool { return b[i].id < b[j].id })
	return b
}

// bindingsMatch: got contains every must binding and nothing outside must+maybe.
func bindingsMatch(got, must, maybe []binding) bool {
	has := func(l []binding, x binding) bool {
		for _, y := range l {
			if x == y {
				return true
			}
		}
		return false
	}
	for _, m := range must {
		if !has(got, m) {
			return false
		}
	}
	for _, g := range got {
		if !has(must, g) && !has(maybe, g) {
			return false
		}
	}
	return true
}

func bindingsEqual(a, b []binding) bool {
	if len(a) != len(b) {
		return false
	}
	for i := range a {
		if a[i] != b[i] {
			return false
		}
	}
	return true
}

var seenRewrites = map[string]bool{}

// loadImage constructs a handler from a lease file image on the given session (plain mode, no scheduler needed:
// construction starts no goroutine). Returns the loaded bindings or a failure description.
func loadImage(s *packet.Session, mode dhcp4.Mode, image []byte, present bool) (b []binding, h *dhcp4.Handler, failure string) {
	defer func() {
		if e := recover(); e != nil {
			failure = fmt.Sprintf("panic: %v @%s", e, panicSite())
			if strings.Contains(fmt.Sprint(e), "budget exhausted") {
				failure = "hang: " + failure
			}
		}
	}()
	vfs.Reset()
	if present {
		vfs.Put(dFile, image)
	}
	vfuel.Set(5_000_000)
	h, err := dhcpConfig(mode).New(s)
	if err != nil {
		return nil, nil, "New returned an error: " + err.Error()
	}
	return bindingsOf(h.VerifLeases(), vtime.Now()), h, ""
}

// loadState constructs a handler on a device image (lease file plus whatever else a crash left) and returns the loaded
// bindings and the device content the construction left behind.
func loadState(s *packet.Session, mode dhcp4.Mode, st map[string][]byte) (b []binding, left map[string][]byte, failure string) {
	defer func() {
		if e := recover(); e != nil {
			failure = fmt.Sprintf("panic: %v @%s", e, panicSite())
			if strings.Contains(fmt.Sprint(e), "budget exhausted") {
				failure = "hang: " + failure
			}
		}
	}()
	vfs.Install(st)
	vfuel.Set(5_000_000)
	h, err := dhcpConfig(mode).New(s)
	if err != nil {
		return nil, nil, "New returned an error: " + err.Error()
	}
	return bindingsOf(h.VerifLeases(), vtime.Now()), vfs.Files(), ""
}

// fileBindings reads the (client id, MAC, IP) entries of a lease file with an independent, schema-free reading of the
// YAML text (no state, expiry or subnet filtering).
func fileBindings(img []byte) []binding {
	var t struct {
		Leases []struct {
			ClientID []byte `yaml:"clientid"`
			Addr     struct {
				MAC []byte `yaml:"mac"`
				IP  string `yaml:"ip"`
			} `yaml:"addr"`
		} `yaml:"leases"`
	}
	if yaml.Unmarshal(img, &t) != nil {
		return nil
	}
	var b []binding
	for _, l := range t.Leases {
		ip, err := netip.ParseAddr(l.Addr.IP)
		if err != nil {
			continue
		}
		b = append(b, binding{hex.EncodeToString(l.ClientID), hex.EncodeToString(l.Addr.MAC), ip})
	}
	sort.Slice(b, func(i, j int) bool { return b[i].id < b[j].id })
	return b
}

// yamlClass names the place of byte offset off in a lease file: "key-<path>" when it lies in the key (or indentation /
// list marker) of its line, "value-<path>" when it lies in the scalar after the colon. The path is the key of the line
// prefixed by the enclosing section (net1, net2, leases, and for list values the parent key).
func yamlClass(img []byte, off int) string {
	lines := bytes.SplitAfter(img, []byte("\n"))
	pos := 0
	section, parent := "", ""
	for _, l := range lines {
		text := strings.TrimRight(string(l), "\n")
		trimmed := strings.TrimLeft(text, " -")
		indent := len(text) - len(trimmed)
		key, hasColon := trimmed, false
		if i := strings.Index(trimmed, ":"); i >= 0 {
			key, hasColon = trimmed[:i], true
		}
		if indent == 0 && hasColon {
			section = key
		}
		isItem := strings.HasPrefix(strings.TrimLeft(text, " "), "- ") && !hasColon // element of a list value (client id, xid, mac bytes)
		if hasColon && strings.TrimSpace(trimmed[len(key)+1:]) == "" {
			parent = key // a key whose value is the following block
		}
		if off >= pos && off < pos+len(l) {
			name := key
			if isItem {
				name = parent + "[]"
			}
			path := section + "." + name
			if indent == 0 {
				path = name
			}
			col := off - pos
			if isItem {
				if col >= indent {
					return "value-" + path
				}
				return "key-" + path
			}
			if hasColon && col > indent+len(key) {
				return "value-" + path
			}
			return "key-" + path
		}
		pos += len(l)
	}
	return "end"
}

// completesImage: the operation leaves a complete new image under the name of the lease file.
func completesImage(op vfs.Op) bool {
	return op.Name == dFile && (op.Kind == "rename" || op.Kind == "close")
}

// completeImages lists the complete images the lease file went through.
func completeImages(ops []vfs.Op) [][]byte {
	var out [][]byte
	state := map[string][]byte{}
	for _, op := range ops {
		vfs.Apply(state, op, -1)
		if completesImage(op) {
			out = append(out, append([]byte(nil), state[dFile]...))
		}
	}
	return out
}

func isStartState(alpha []dEvent, hist []int) bool {
	for _, sd := range dhcpSeeds(alpha) {
		if fmt.Sprint(sd) == fmt.Sprint(hist) {
			return true
		}
	}
	return false
}

// checkLoaded enforces the clauses that hold for every image: inside the home subnet, with a client identifier.
func checkLoaded(b []binding) string {
	for _, x := range b {
		if !dHome.Contains(x.ip) {
			return fmt.Sprintf("binding %v outside the home subnet loaded", x.ip)
		}
		if x.id == "" {
			return fmt.Sprintf("binding %v without client identifier loaded", x.ip)
		}
	}
	return ""
}

// dhcpPersistence runs the restart, crash point and corruption checks for the state reached by hist.
func dhcpPersistence(c *core.Ctx, alpha []dEvent, hist []int, o dhcpOpts, r *dhcpResult) []string {
	setLayout(o.layout)
	var out []string
	seenSig := map[string]bool{}
	add := func(sig, what string) {
		if !seenSig[sig] && len(out) < 40 { // one report per signature and history
			seenSig[sig] = true
			out = append(out, "persist|"+sig+"|"+what)
		}
	}
	if len(r.written) == 0 {
		return nil
	}
	final := r.written[len(r.written)-1]
	want := bindingsOf(r.leases, time.Unix(0, r.endTime)) // the bindings the running handler holds at the moment of the restart
	restartOK := false
	// every construction below runs inside one controlled execution so that the goroutines of the session are owned by
	// the scheduler (and removed at the end) like everywhere else
	ex := vsched.Run(vsched.Config{Mode: vsched.ModeSeq, BaseTime: r.endTime}, func() {
		concReset()
		s, _ := env.NewSession(dhcpNIC(), packet.Config{})
		vsched.WaitIdle()

		// (i) restart: the new handler holds exactly the acknowledged bindings
		c.Count("restart_checks", 1)
		got, _, failure := loadImage(s, o.mode, final, true)
		switch {
		case failure != "":
			add("restart-"+firstWords(failure, 1), "restart from the saved file: "+failure)
		case !bindingsEqual(got, want):
			add("restart-bindings", fmt.Sprintf("after restart the handler holds %v, the running handler held %v", got, want))
		}
		restartOK = failure == ""

		// (i') an acknowledged lease survives a crash right after the acknowledgement: at the moment an ACK is
		// transmitted the device already holds the binding
		for _, ai := range r.ackImages {
			key := fmt.Sprintf("ack %d %v ", ai.k, ai.ip) + vfs.Key(ai.files)
			if seenRewrites[key] {
				continue
			}
			seenRewrites[key] = true
			c.Count("ack_images", 1)
			c.Count("evaluations", 1)
			b, _, fail := loadState(s, o.mode, ai.files)
			has := false
			for _, x := range b {
				if x.id == hex.EncodeToString(dID(ai.k)) && x.ip == ai.ip {
					has = true
				}
			}
			if fail != "" || !has {
				add("ack-before-save", fmt.Sprintf("the ACK of %v to c%d was transmitted while the lease file did not hold the binding yet: a restart from the device content of that moment yields %v %s", ai.ip, ai.k+1, b, fail))
			}
		}

		// (ii) crash points. The device logs every operation (open/truncate, write, sync, close, rename, remove) on the
		// lease file and on any temporary file. A crash can leave the device in the state after any prefix of that
		// log, or in the middle of a write (any byte prefix of its data). For every such state: construction neither
		// panics nor hangs, yields the bindings of the complete lease file image before or after the interrupted save
		// (or an empty table), and a SECOND restart - from whatever the recovering handler itself wrote - yields the
		// same bindings again. Only the operations of the last step are enumerated (those of the prefix history were
		// enumerated when the prefix was explored), all of them for the start states.
		from := 0
		if len(hist) > 0 && len(r.opsAt) == len(hist)+1 && !isStartState(alpha, hist) {
			from = r.opsAt[len(hist)-1]
		}
		type cand struct {
			at int // index of the operation that completed this image (-1: before the first operation)
			b  []binding
		}
		cands := []cand{{at: -1}}
		state := map[string][]byte{}
		for i, op := range r.ops {
			vfs.Apply(state, op, -1)
			if completesImage(op) {
				bb, _, fl := loadImage(s, o.mode, state[dFile], true)
				if fl != "" {
					add("crash-complete-image", fmt.Sprintf("the complete image written by operation %d does not load: %s", i, fl))
					continue
				}
				cands = append(cands, cand{at: i, b: bb})
			}
		}
		around := func(i int) (before, after []binding) { // i = number of completed operations
			for _, cd := range cands {
				if cd.at < i {
					before = cd.b
				}
			}
			after = before
			for _, cd := range cands {
				if cd.at >= i {
					after = cd.b
					break
				}
			}
			return
		}
		state = map[string][]byte{}
		for i := 0; i < from && i < len(r.ops); i++ {
			vfs.Apply(state, r.ops[i], -1)
		}
		tryCrash := func(desc string, st map[string][]byte, i int) {
			before, after := around(i)
			key := vfs.Key(st) + "\x00" + fmt.Sprint(before) + "\x00" + fmt.Sprint(after)
			if seenRewrites[key] {
				return
			}
			seenRewrites[key] = true
			c.Count("crash_images", 1)
			c.Count("evaluations", 1)
			b1, left, fail := loadState(s, o.mode, st)
			if fail != "" {
				add("crash-"+firstWords(fail, 1), desc+": "+fail)
				return
			}
			if v := checkLoaded(b1); v != "" {
				add("crash-invalid-binding", desc+": "+v)
				return
			}
			if !bindingsEqual(b1, before) && !bindingsEqual(b1, after) && len(b1) != 0 {
				add("crash-partial-table", fmt.Sprintf("%s: recovered bindings %v are neither the table before the interrupted save %v, the table after it %v nor empty", desc, b1, before, after))
				return
			}
			b2, _, fail2 := loadState(s, o.mode, left)
			if fail2 != "" {
				add("crash-second-restart", fmt.Sprintf("%s: the first restart recovered %v, a second restart fails: %s", desc, b1, fail2))
			} else if !bindingsEqual(b1, b2) {
				add("crash-second-restart", fmt.Sprintf("%s: the first restart recovered %v but a second restart (from the files the recovering handler left) yields %v", desc, b1, b2))
			}
		}
		for i := from; i <= len(r.ops); i++ {
			tryCrash(fmt.Sprintf("crash after %d of %d device operations", i, len(r.ops)), state, i)
			if i == len(r.ops) {
				break
			}
			op := r.ops[i]
			if op.Kind == "write" {
				c.Count("writes_enumerated", 1)
				for n := 1; n < len(op.Data); n++ {
					if !c.Thorough() && len(op.Data) > 64 && n > 3 && n < len(op.Data)-2 && n%16 != 0 {
						continue
					}
					torn := map[string][]byte{}
					for k, v := range state {
						torn[k] = v
					}
					vfs.Apply(torn, op, n)
					tryCrash(fmt.Sprintf("crash during device operation %d (write to %s torn after %d of %d bytes)", i, op.Name, n, len(op.Data)), torn, i)
				}
			}
			vfs.Apply(state, op, -1)
		}

		// (iii) corruption of the final image (scripted seed states, and every state in the thorough tier)
		isSeed := isStartState(alpha, hist)
		if isSeed || c.Thorough() && len(hist) <= 3 {
			subs := []byte{' ', ':', '-', '0', '9', 'a', '\n', '#', 0xff}
			step := 1
			if !c.Thorough() {
				step = 2
			}
			// only the DHCP handler restarts: the application's capture decisions are still in force when the damaged
			// file is loaded (the loader treats the leases of captured stations differently)
			for k, cp := range r.capEnd {
				if cp {
					s.Capture(dClients[k])
				}
			}
			intact, _, _ := loadImage(s, o.mode, final, true)
			inFile := fileBindings(final) // every (client id, MAC, IP) entry written in the original file, whatever its state or expiry
			inIntact := func(x binding) bool {
				for _, y := range inFile {
					if x == y {
						return true
					}
				}
				return false
			}
			try := func(kind, class string, img []byte) {
				c.Count("corrupt_images", 1)
				c.Count("evaluations", 1)
				b, _, fail := loadImage(s, o.mode, img, true)
				if fail != "" {
					add("corrupt-"+firstWords(fail, 1), kind+": "+fail)
					return
				}
				if v := checkLoaded(b); v != "" {
					add("corrupt-invalid-binding", kind+": "+v)
					return
				}
				for _, x := range b {
					if !inIntact(x) {
						add("corrupt-absent-binding:"+class, fmt.Sprintf("%s: binding %v is absent from the original file (intact bindings %v)", kind, x, intact))
						return
					}
				}
				if len(b) != 0 && !bindingsEqual(b, intact) && !bindingsEqual(b, inFile) {
					add("corrupt-partial-table:"+class, fmt.Sprintf("%s: the loaded table %v is neither the intact table %v nor empty", kind, b, intact))
				}
			}
			for off := 0; off < len(final); off += step {
				for _, sb := range subs {
					if final[off] == sb {
						continue
					}
					img := append([]byte(nil), final...)
					img[off] = sb
					try(fmt.Sprintf("byte %d replaced by %q", off, sb), yamlClass(final, off), img)
				}
			}
			// the file truncated at every byte offset (the statement quantifies over it although the temp-and-rename save
			// cannot leave such a file behind)
			for n := 0; n < len(final); n++ {
				cls := "start"
				if n > 0 {
					cls = yamlClass(final, n-1)
				}
				try(fmt.Sprintf("truncated to %d of %d bytes", n, len(final)), "truncated-"+cls, final[:n])
			}
			lines := bytes.SplitAfter(final, []byte("\n"))
			for i := range lines {
				var del, dup []byte
				for j, l := range lines {
					if j != i {
						del = append(del, l...)
					}
					dup = append(dup, l...)
					if j == i {
						dup = append(dup, l...)
					}
				}
				lineClass := yamlClass(final, len(bytes.Join(lines[:i], nil)))
				lineClass = "line-" + strings.TrimPrefix(strings.TrimPrefix(lineClass, "key-"), "value-")
				try(fmt.Sprintf("line %d deleted", i+1), "deleted-"+lineClass, del)
				try(fmt.Sprintf("line %d duplicated", i+1), "duplicated-"+lineClass, dup)
			}
		}
	})
	if ex.Outcome != vsched.Complete {
		add("persist-"+ex.Outcome.String(), fmt.Sprintf("persistence checks ended with %s: %s", ex.Outcome, firstLine(ex.Panics)))
	}
	if restartOK && len(want) > 0 {
		if v := restartBehaviour(o, final, want, r.endTime, r.capEnd, r.movedIDs); v != "" {
			add("restart-behaviour", v)
		}
	}
	return out
}

// restartBehaviour: the restarted handler acknowledges renewals of the owners and does not offer bound addresses to
// another client.
func restartBehaviour(o dhcpOpts, image []byte, want []binding, at int64, captured []bool, moved map[string]bool) (failure string) {
	ex := vsched.Run(vsched.Config{Mode: vsched.ModeSeq, BaseTime: at}, func() {
		concReset()
		vfuel.Set(20_000_000)
		vfs.Put(dFile, image)
		s, conn := env.NewSession(dhcpNIC(), packet.Config{})
		// only the DHCP handler restarts: the application's capture decisions are still in force
		for k, c := range captured {
			if c {
				s.Capture(dClients[k])
			}
		}
		h, err := dhcpConfig(o.mode).New(s)
		if err != nil {
			failure = "New failed: " + err.Error()
			return
		}
		vsched.WaitIdle()
		conn.Take()
		deliver := func(raw []byte) []refnet.SentInfo {
			buf := make([]byte, len(raw), packet.EthMaxSize)
			copy(buf, raw)
			frame, err := s.Parse(buf)
			if err != nil {
				return nil
			}
			h.ProcessPacket(frame)
			vsched.WaitIdle()
			var replies []refnet.SentInfo
			for _, f := range conn.Take() {
				info := refnet.DecodeSent(f.Data, env.HostMAC)
				if info.Kind == "dhcp4" && info.DHCP != nil && info.SrcPort == 67 && info.DHCP.Op == 2 {
					replies = append(replies, info)
				}
			}
			return replies
		}
		for _, b := range want {
			k := -1
			for i := range dClients {
				if hex.EncodeToString(dID(i)) == b.id {
					k = i
				}
			}
			if k < 0 {
				continue
			}
			// renewal from the owner
			acked := false
			for _, r := range deliver(dhcpFrame(k, 3, 0x5000+uint32(k), b.ip, dHost, b.ip, nil)) {
				if r.DHCP.MsgType == 5 && r.DHCP.YIAddr == b.ip {
					acked = true
				}
				if r.DHCP.MsgType == 5 {
					// C12 after the restart: an ACK carries an address of the subnet selected by the client's capture state
					subnet, wantRouter := dHome, dRouter
					if s.IsCaptured(dClients[k]) {
						subnet, wantRouter = dNetf.Masked(), dHost
					}
					if !subnet.Contains(r.DHCP.YIAddr) || !bytes.Equal(r.DHCP.Options[3], wantRouter.AsSlice()) {
						failure = fmt.Sprintf("after restart the renewal of c%d (captured=%v) was acknowledged with address %v and router %v, its subnet is %v with router %v", k+1, s.IsCaptured(dClients[k]), r.DHCP.YIAddr, r.DHCP.Options[3], subnet, wantRouter)
						return
					}
				}
			}
			if moved[b.id] {
				continue // the client was moved to the other subnet after the acknowledgement: its renewal may be refused
			}
			if !acked {
				failure = fmt.Sprintf("after restart the renewal of %v by its owner c%d was not acknowledged", b.ip, k+1)
				return
			}
			// a fresh client asking for the bound address must not be offered it
			fresh := refnet.DHCP4Msg{Op: 1, XID: 0x6000, CHAddr: dOther, Options: [][2][]byte{{{53}, {1}}, {{50}, b.ip.AsSlice()}}}.Bytes()
			raw := refnet.Eth(bcast, dOther, 0x0800, refnet.IP4(netip.IPv4Unspecified(), netip.MustParseAddr("255.255.255.255"), 17, refnet.UDP(68, 67, fresh), refnet.IP4Opt{}))
			for _, r := range deliver(raw) {
				if r.DHCP.MsgType == 2 && r.DHCP.YIAddr == b.ip {
					failure = fmt.Sprintf("after restart the bound address %v of c%d was offered to another client", b.ip, k+1)
					return
				}
			}
		}
	})
	if ex.Outcome != vsched.Complete && failure == "" {
		failure = fmt.Sprintf("restart execution ended with %s: %s", ex.Outcome, firstLine(ex.Panics))
	}
	return failure
}

func init() {
	d := dhcpDriver("persist", "for every distinct lease table reached by the C11 exploration (depth 2, thorough 3, plus the scripted start states; two address plans): (i) restart from the saved file: bindings equal the ones the running handler held, owners' renewals are ACKed, bound addresses are not offered to a fresh client, and the device content at the moment each ACK is transmitted already holds the acknowledged binding; (ii) crash points: the in-memory device logs every operation (open/truncate, write, sync, close, rename, remove) on the lease file and on temporary files; for the device state after every prefix of that log and in the middle of every write (every byte prefix in the thorough tier; first/last bytes and every 16th in quick) construction neither panics nor hangs, yields the bindings of the complete lease-file image before or after the interrupted save or an empty table, never a binding outside the home subnet or without client id, and a second restart from the files the recovering handler itself left yields the same bindings; (iii) every single-byte substitution by {space : - 0 9 a newline # 0xff} (quick: every second offset) every line deletion/duplication and every truncation of the saved file of the start states (thorough: of every state): no panic, no hang, no binding outside the home subnet or without client id, no binding absent from the original file, and a table that is intact or empty")
	base := d.Run
	d.Run = func(c *core.Ctx, args []string) {
		c.Res.Level = "fault_enumeration"
		base(c, args)
		c.Res.Level = "fault_enumeration"
		c.Res.Counters["distinct_extra"] = c.Res.Counters["crash_images"] + c.Res.Counters["corrupt_images"]
	}
	Registry["C18"] = d
}
