package props

import (
	"encoding/hex"
	"fmt"
	"net"
	"net/netip"

	"harness/core"
	"harness/env"
	"harness/refnet"

	"github.com/irai/packet"
)

// C15: internet checksums are computed correctly.

type c15Replay struct {
	Kind string `json:"kind"`
	Hex  string `json:"hex"`
}

func c15Check(c *core.Ctx, b []byte) {
	c.Count("evaluations", 1)
	got := packet.Checksum(b)
	want := refnet.Swap16(refnet.Checksum1071(b))
	if got != want {
		c.Violate(fmt.Sprintf("checksum-value|packet.Checksum|len%%2=%d", len(b)%2),
			fmt.Sprintf("Checksum(%x)=%04x reference(storage order)=%04x", trunc(b, 48), got, want),
			c15Replay{Kind: "bytes", Hex: hex.EncodeToString(b)})
	}
}

func trunc(b []byte, n int) []byte {
	if len(b) > n {
		return b[:n]
	}
	return b
}

func c15Run(c *core.Ctx, args []string) {
	c.Res.Level = "exploration"
	c.Res.Rule = "every byte string of length 0..3; every string over {00,01,7f,80,fe,ff} of length<=8 (quick: <=6); for each length L in the tier's range, carriers {00..,ff..,00ff..,ff00..} with every single-word perturbation by {0001,00ff,ff00,ffff,8000} at every word position; every 2-way split of each carrier recombined by the reference; IPv4 headers (address, ttl, protocol, TOS and identification alphabets) completed by SetPayload/AppendPayload (also a second time, over a stale checksum field) and ICMPv4/ICMPv6 frames (incl. router advertisements of up to 408 bytes) emitted by the send functions verified with the RFC 1071 reference. distinct = distinct byte strings; all are non-trivial except the empty string"
	c.Res.Assumptions = []string{"reference: RFC 1071 big-endian word sum with end-around carry, byte-swapped into the library's storage order", "lengths above 1522 and byte patterns outside the stated alphabets are not explored"}
	thorough := c.Thorough()
	buf4 := make([]byte, 0, 4)
	// (1) exhaustive 0..3, sharded on the first byte
	if c.Shard == 0 {
		c15Check(c, nil)
	}
	for a := 0; a < 256; a++ {
		if !c.Mine(a) {
			continue
		}
		buf4 = append(buf4[:0], byte(a))
		c15Check(c, buf4)
		for b := 0; b < 256; b++ {
			buf4 = append(buf4[:0], byte(a), byte(b))
			c15Check(c, buf4)
			for d := 0; d < 256; d++ {
				buf4 = append(buf4[:0], byte(a), byte(b), byte(d))
				c15Check(c, buf4)
			}
		}
		c.Count("distinct_extra", 1+256+65536)
	}
	// (2) alphabet strings
	alpha := []byte{0x00, 0x01, 0x7f, 0x80, 0xfe, 0xff}
	maxl := 6
	if thorough {
		maxl = 8
	}
	idx := 0
	var rec func(cur []byte)
	rec = func(cur []byte) {
		if len(cur) >= 4 { // shorter ones are covered by (1)
			c15Check(c, cur)
			c.Distinct(cur)
		}
		if len(cur) == maxl {
			return
		}
		for _, x := range alpha {
			rec(append(cur, x))
		}
	}
	for _, a := range alpha {
		for _, b := range alpha {
			if c.Mine(idx) {
				rec([]byte{a, b})
			}
			idx++
		}
	}
	// (3) carriers with perturbations, every length
	var lengths []int
	if thorough {
		for l := 0; l <= 1522; l++ {
			lengths = append(lengths, l)
		}
		lengths = append(lengths, 2000, 4096, 9000, 65535)
	} else {
		for l := 0; l <= 80; l++ {
			lengths = append(lengths, l)
		}
		for l := 1480; l <= 1522; l++ {
			lengths = append(lengths, l)
		}
	}
	perturb := [][2]byte{{0x00, 0x01}, {0x00, 0xff}, {0xff, 0x00}, {0xff, 0xff}, {0x80, 0x00}}
	for li, l := range lengths {
		if !c.Mine(li) {
			continue
		}
		for carrier := 0; carrier < 4; carrier++ {
			b := make([]byte, l)
			for i := range b {
				switch carrier {
				case 1:
					b[i] = 0xff
				case 2:
					if i%2 == 1 {
						b[i] = 0xff
					}
				case 3:
					if i%2 == 0 {
						b[i] = 0xff
					}
				}
			}
			c15Check(c, b)
			if l >= 4 {
				c.Distinct(b)
			}
			step := 1
			if l > 2000 {
				step = 97
			}
			for w := 0; w+1 < l; w += 2 * step {
				o0, o1 := b[w], b[w+1]
				for _, p := range perturb {
					b[w], b[w+1] = p[0], p[1]
					c15Check(c, b)
					if l >= 4 {
						c.Distinct(b)
					}
				}
				b[w], b[w+1] = o0, o1
			}
			if l%2 == 1 && l > 0 { // odd tail perturbations
				o := b[l-1]
				for _, v := range []byte{0x00, 0x01, 0x80, 0xff} {
					b[l-1] = v
					c15Check(c, b)
					if l >= 4 {
						c.Distinct(b)
					}
				}
				b[l-1] = o
			}
			// split independence of the reference itself against the library value
			if l <= 1522 {
				got := packet.Checksum(b)
				for k := 0; k <= l; k += step {
					s1 := refnet.Sum1071(b[:k])
					s2 := refnet.Sum1071(b[k:])
					if k%2 == 1 {
						s2 = refnet.Swap16(s2)
					}
					want := refnet.Swap16(^refnet.AddOnes(s1, s2))
					c.Count("evaluations", 1)
					c.Count("splits", 1)
					if got != want {
						c.Violate(fmt.Sprintf("checksum-split|packet.Checksum|k%%2=%d", k%2),
							fmt.Sprintf("Checksum over len=%d carrier=%d differs from the recombined reference at split %d: %04x vs %04x", l, carrier, k, got, want),
							c15Replay{Kind: "bytes", Hex: hex.EncodeToString(b)})
						break
					}
				}
			}
		}
	}
	// (4) IPv4 headers and emitted ICMP frames (one shard)
	if c.Shard == 0 {
		c15Frames(c)
	}
}

func c15Frames(c *core.Ctx) {
	ips := []netip.Addr{netip.MustParseAddr("0.0.0.0"), netip.MustParseAddr("10.0.0.1"), netip.MustParseAddr("192.168.0.255"), netip.MustParseAddr("255.255.255.255")}
	for _, src := range ips {
		for _, dst := range ips {
			for _, ttl := range []byte{0, 1, 64, 255} {
				for _, proto := range []byte{0, 1, 6, 17, 255} {
					for _, plen := range []int{0, 1, 2, 7, 8, 255, 256, 1471, 1472, 1480} {
						payload := make([]byte, plen)
						for i := range payload {
							payload[i] = byte(i * 7)
						}
						for variant := 0; variant < 2*12; variant++ {
							buf := make([]byte, 1600)
							ip := packet.EncodeIP4(buf[:1600], ttl, src, dst)
							// the caller may set the remaining header fields before completing the header
							tos := []byte{0xc0, 0x00, 0x01, 0x02, 0x03, 0xff}[variant/2%6]
							ident := []uint16{0, 0xffff}[variant/12]
							buf[1], buf[4], buf[5] = tos, byte(ident>>8), byte(ident)
							variant := variant % 2
							var out packet.IP4
							if variant == 0 {
								var err error
								out, err = ip.AppendPayload(payload, proto)
								if err != nil {
									continue
								}
							} else {
								copy(buf[20:], payload)
								out = ip.SetPayload(payload, proto)
							}
							c.Count("evaluations", 1)
							c.Count("ip4_headers", 1)
							c.Distinct(out[:20])
							if !refnet.VerifiesIP4Header(out[:20]) {
								c.Violate(fmt.Sprintf("ip4-header-checksum|variant=%d", variant),
									fmt.Sprintf("IPv4 header %x does not verify", out[:20]), c15Replay{Kind: "ip4hdr", Hex: hex.EncodeToString(out[:20])})
							}
						}
					}
				}
			}
		}
	}
	// completing a header a second time (a reused buffer, a header taken from a received packet): whatever the checksum
	// field held before must not be summed in
	for _, plen := range []int{0, 1, 8, 255} {
		for _, proto := range []byte{1, 6, 17} {
			for order := 0; order < 4; order++ {
				buf := make([]byte, 1600)
				ip := packet.EncodeIP4(buf[:1600], 64, ips[1], ips[2])
				p1, p2 := make([]byte, plen), make([]byte, plen+3)
				var out packet.IP4
				switch order {
				case 0: // Set, Set
					out = ip.SetPayload(p1, 17)
					out = packet.IP4(out[:20]).SetPayload(p2, proto)
				case 1: // Append, Set
					out, _ = ip.AppendPayload(p1, 17)
					out = packet.IP4(out[:20]).SetPayload(p2, proto)
				case 2: // Set, Append
					out = ip.SetPayload(p1, 17)
					out, _ = packet.IP4(out[:20]).AppendPayload(p2, proto)
				case 3: // a dirty checksum field
					buf[10], buf[11] = 0xde, 0xad
					out = ip.SetPayload(p2, proto)
				}
				c.Count("evaluations", 1)
				c.Count("ip4_headers", 1)
				if out == nil || !refnet.VerifiesIP4Header(out[:20]) {
					c.Violate("ip4-header-checksum|recompleted", fmt.Sprintf("IPv4 header completed a second time (case %d) does not verify: %x", order, buf[:20]), c15Replay{Kind: "ip4hdr", Hex: hex.EncodeToString(buf[:20])})
				}
			}
		}
	}
	// ICMP frames from the real send paths
	s, conn := env.NewSession(env.DefaultNIC(), packet.Config{})
	defer s.Close()
	host4 := s.NICInfo.HostAddr4
	hostLLA := packet.Addr{MAC: env.HostMAC, IP: env.HostLLA}
	dst4 := packet.Addr{MAC: env.MAC1, IP: netip.MustParseAddr("192.168.0.10")}
	dst6 := []packet.Addr{{MAC: env.MAC1, IP: netip.MustParseAddr("fe80::10")}, {MAC: env.MAC1, IP: netip.MustParseAddr("2001:db8::10")}, packet.IP6AllNodesAddr}
	for _, id := range []uint16{0, 1, 255, 256, 0xfffe, 0xffff} {
		for _, seq := range []uint16{0, 1, 0xffff} {
			s.ICMP4SendEchoRequest(host4, dst4, id, seq)
			for _, d := range dst6 {
				s.ICMP6SendEchoRequest(hostLLA, d, id, seq)
			}
		}
	}
	for _, d := range dst6 {
		s.ICMP6SendNeighbourSolicitation(hostLLA, d, d.IP)
		s.ICMP6SendNeighborAdvertisement(hostLLA, d, packet.Addr{MAC: env.HostMAC, IP: env.RouterLLA})
	}
	// long ICMPv6 messages: router advertisements with 1..12 prefixes (messages of 56..408 bytes)
	var prefixes []packet.PrefixInformation
	for n := 1; n <= 12; n++ {
		prefixes = append(prefixes, packet.PrefixInformation{PrefixLength: 64, Prefix: net.ParseIP(fmt.Sprintf("2001:db8:%x::", n))})
		s.ICMP6SendRouterAdvertisement(prefixes, nil, packet.IP6AllNodesAddr)
	}
	for _, f := range conn.Take() {
		c.Count("evaluations", 1)
		c.Count("icmp_frames", 1)
		c.Distinct(f.Data)
		if what := verifyICMPChecksum(f.Data); what != "" {
			c.Violate("icmp-frame-checksum|"+what, fmt.Sprintf("%s frame=%x", what, trunc(f.Data, 80)), c15Replay{Kind: "frame", Hex: hex.EncodeToString(f.Data)})
		}
	}
	c.Sample(map[string]any{"kind": "carrier", "len": 1501, "carrier": "ff00.. with word 750 set to 8000"}, 8)
	c.Sample(map[string]any{"kind": "bytes", "hex": "fe01ff"}, 8)
}

// verifyICMPChecksum checks IPv4 header checksum and the ICMPv4/ICMPv6 checksum of an Ethernet frame; "" if fine.
func verifyICMPChecksum(f []byte) string {
	if len(f) < 14 {
		return "short frame"
	}
	et := uint16(f[12])<<8 | uint16(f[13])
	switch et {
	case 0x0800:
		if len(f) < 34 {
			return "short ipv4"
		}
		ihl := int(f[14]&0x0f) * 4
		if !refnet.VerifiesIP4Header(f[14 : 14+ihl]) {
			return "ipv4 header checksum"
		}
		tot := int(f[16])<<8 | int(f[17])
		if 14+tot > len(f) || tot < ihl {
			return "ipv4 total length"
		}
		if f[23] == 1 {
			if refnet.Sum1071(f[14+ihl:14+tot]) != 0xffff {
				return "icmpv4 checksum"
			}
		}
	case 0x86dd:
		if len(f) < 54 {
			return "short ipv6"
		}
		pl := int(f[18])<<8 | int(f[19])
		if 54+pl > len(f)+0 || 54+pl != len(f) {
			return "ipv6 payload length"
		}
		if f[20] == 58 {
			var src, dst [16]byte
			copy(src[:], f[22:38])
			copy(dst[:], f[38:54])
			if refnet.Sum1071(refnet.ICMP6Pseudo(src, dst, f[54:54+pl], 58)) != 0xffff {
				return "icmpv6 checksum"
			}
		}
	}
	return ""
}

func c15Replayer(data []byte) string {
	var r c15Replay
	if err := jsonUnmarshal(data, &r); err != nil {
		return ""
	}
	b, _ := hex.DecodeString(r.Hex)
	switch r.Kind {
	case "bytes":
		if packet.Checksum(b) != refnet.Swap16(refnet.Checksum1071(b)) {
			return "checksum mismatch"
		}
	case "ip4hdr":
		if !refnet.VerifiesIP4Header(b) {
			return "ipv4 header does not verify"
		}
	case "frame":
		return verifyICMPChecksum(b)
	}
	return ""
}

func init() {
	Registry["C15"] = &Driver{
		Plan:   func(tier string) []core.Job { return shardJobs("sum", 16, false, 1200) },
		Run:    c15Run,
		Replay: c15Replayer,
	}
}
