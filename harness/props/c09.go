package props

import (
	"bytes"
	"fmt"
	"net/netip"
	"strings"
	"time"

	"harness/core"
	"harness/env"
	"harness/refnet"

	"github.com/irai/packet"
	arp "github.com/irai/packet/handlers/arp_spoofer"
	dhcp4 "github.com/irai/packet/handlers/dhcp4_spoofer"
	dns "github.com/irai/packet/handlers/dns_naming"
	icmp "github.com/irai/packet/handlers/icmp_spoofer"
	"github.com/irai/packet/verifshim/venv"
	"github.com/irai/packet/verifshim/vfs"
	"github.com/irai/packet/verifshim/vfuel"
	"github.com/irai/packet/verifshim/vrand"
	"github.com/irai/packet/verifshim/vsched"
)

// C09: session and handlers are safe under the supported concurrency pattern.

func concReset() {
	packet.VerifReset()
	icmp.VerifReset()
	dhcp4.VerifReset()
	dns.VerifReset()
	vrand.Reset()
	venv.Reset()
	vfs.Reset()
	vfuel.Unlimited()
	env.DirtyPool() // every execution starts with recycled (non-zero) frame buffers in the library's pool
}

func concSession() (*packet.Session, *env.Conn) {
	s, conn := env.NewSession(env.DefaultNIC(), packet.Config{})
	conn.Yield = true
	return s, conn
}

func frame4(mac []byte, ip netip.Addr) []byte {
	return refnet.Eth(env.HostMAC, mac, 0x0800, refnet.IP4(ip, ip4host, 17, refnet.UDP(40000, 40001, []byte("x")), refnet.IP4Opt{}))
}

func frame6(mac []byte, ip netip.Addr) []byte {
	return refnet.Eth(env.HostMAC, mac, 0x86dd, refnet.IP6(ip, env.HostLLA, 17, 64, refnet.UDP(40000, 40001, []byte("x")), -1))
}

// parseNotify is one iteration of the packet loop.
func parseNotify(s *packet.Session, f []byte) (packet.Frame, error) {
	frame, err := s.Parse(append([]byte(nil), f...))
	if err == nil {
		s.Notify(frame)
	}
	return frame, err
}

func drain(s *packet.Session) int {
	n := 0
	for len(s.C) > 0 {
		<-s.C
		n++
	}
	return n
}

// threads starts the given bodies as controlled goroutines and waits for all of them.
// threadRot rotates the order in which threads() starts its goroutines: the default (deviation free) schedule and
// the schedules reachable with few deviations depend on that order.
var threadRot int

func threads(bodies ...func()) {
	done := make(chan bool, len(bodies))
	for i := range bodies {
		b := bodies[(i+threadRot)%len(bodies)]
		vsched.Go(func() {
			b()
			vsched.Send(done, true)
		})
	}
	for range bodies {
		vsched.Recv(done)
	}
}

// sessionPost checks the table invariant and goroutine leaks after every goroutine has terminated.
func sessionPost(x *concExec) {
	if s, ok := x.data["session"].(*packet.Session); ok {
		if inv := sessInvariant(s); inv != "" {
			x.fail("invariant", "table invariant broken at the final quiescent point: "+inv)
		}
	}
}

var ip4c = netip.MustParseAddr("192.168.0.12")

func c09Scenarios() []*concScenario {
	var list []*concScenario
	add := func(name string, maxClock int, body func(x *concExec), post func(x *concExec)) {
		for rot := 0; rot < 3; rot++ {
			rot := rot
			n := name
			if rot > 0 {
				n = fmt.Sprintf("%s~%d", name, rot) // the same harness, threads started in rotated order
			}
			list = append(list, &concScenario{name: n, maxClock: maxClock, post: post, body: func(x *concExec) {
				threadRot = rot
				defer func() { threadRot = 0 }()
				body(x)
			}})
		}
	}
	closeSession := func(x *concExec, s *packet.Session) {
		s.Close()
		vsched.WaitIdle()
	}

	// H1: packet loop with a new host || purge (aged entries) || reader
	add("H1", 4, func(x *concExec) {
		concReset()
		s, _ := concSession()
		x.data["session"] = s
		parseNotify(s, frame4(env.MAC2, ip4b))
		vsched.Advance(int64(packet.DefaultOfflineDeadline + time.Minute)) // the minute ticker is now due: purge will mark c2/b offline
		threads(
			func() {
				parseNotify(s, frame4(env.MAC1, ip4a))
				parseNotify(s, frame4(env.MAC1, ip4a))
			},
			func() {
				s.FindIP(ip4a)
				s.GetHosts()
				s.IPAddrs(env.MAC1)
				s.PrintTable()
			},
		)
		vsched.WaitIdle()
		x.observe(fmt.Sprintf("hosts=%d notes=%d", len(s.GetHosts()), drain(s)))
		closeSession(x, s)
	}, sessionPost)

	// H2: IP change on the packet loop || purge deleting the old entries || capture toggles
	add("H2", 4, func(x *concExec) {
		concReset()
		s, _ := concSession()
		x.data["session"] = s
		parseNotify(s, frame4(env.MAC1, ip4a))
		vsched.Advance(int64(packet.DefaultOfflineDeadline + time.Minute))
		vsched.WaitIdle() // c1/a offline
		vsched.Advance(int64(packet.DefaultPurgeDeadline + time.Minute))
		// purge (delete c1/a and its MAC entry) now races with the threads
		threads(
			func() {
				parseNotify(s, frame4(env.MAC1, ip4b))
				parseNotify(s, frame4(env.MAC1, ip4a))
			},
			func() {
				s.Capture(env.MAC1)
				s.IsCaptured(env.MAC1)
				s.Release(env.MAC1)
			},
		)
		vsched.WaitIdle()
		x.observe(fmt.Sprintf("hosts=%d notes=%d", len(s.GetHosts()), drain(s)))
		closeSession(x, s)
	}, sessionPost)

	// H10: purge about to delete an aged address || the packet loop re-binding that address to another MAC || reader
	add("H10", 4, func(x *concExec) {
		concReset()
		s, _ := concSession()
		x.data["session"] = s
		parseNotify(s, frame4(env.MAC1, ip4a))
		parseNotify(s, frame6(env.MAC1, lla1)) // the MAC entry survives the deletion of its IPv4 address
		vsched.Advance(int64(packet.DefaultOfflineDeadline + time.Minute))
		vsched.WaitIdle() // c1/a offline
		vsched.Advance(int64(packet.DefaultPurgeDeadline + time.Minute))
		// purge (delete c1/a) now races with the threads
		threads(
			func() {
				parseNotify(s, frame4(env.MAC2, ip4a)) // c2 claims the address that purge is about to delete
			},
			func() {
				s.FindIP(ip4a)
				s.FindByMAC(env.MAC2)
			},
		)
		vsched.WaitIdle()
		x.observe(fmt.Sprintf("hosts=%d notes=%d", len(s.GetHosts()), drain(s)))
		closeSession(x, s)
	}, sessionPost)

	// H3: address claimed by another MAC || readers || DHCP update and offers
	add("H3", 3, func(x *concExec) {
		concReset()
		s, _ := concSession()
		x.data["session"] = s
		parseNotify(s, frame4(env.MAC1, ip4a))
		threads(
			func() { // the packet loop: a frame, then the DHCP handler recording an acknowledged address
				parseNotify(s, frame4(env.MAC2, ip4a))
				s.DHCPv4Update(env.MAC1, ip4b, packet.NameEntry{Name: "n1"})
			},
			func() {
				s.FindByMAC(env.MAC1)
				s.FindMACEntry(env.MAC1)
			},
			func() { // an API goroutine using the DHCP offer accessors
				s.SetDHCPv4IPOffer(env.MAC1, ip4b, packet.NameEntry{})
				s.DHCPv4IPOffer(env.MAC1)
			},
		)
		vsched.WaitIdle()
		x.observe(fmt.Sprintf("hosts=%d notes=%d", len(s.GetHosts()), drain(s)))
		closeSession(x, s)
	}, sessionPost)

	// H15: three API goroutines next to the packet loop while purge is due ("any number of goroutines": one caller
	// more than the other harnesses): capture toggles || DHCP offer/update || readers || IP change on the loop
	add("H15", 3, func(x *concExec) {
		concReset()
		s, _ := concSession()
		x.data["session"] = s
		parseNotify(s, frame4(env.MAC1, ip4a))
		parseNotify(s, frame4(env.MAC2, ip4b))
		vsched.Advance(int64(packet.DefaultOfflineDeadline + time.Minute)) // purge is due: c1/a and c2/b are about to go offline
		threads(
			func() { // the packet loop: c1 moves to a new address, c2 is seen again
				parseNotify(s, frame4(env.MAC1, ip4c))
				parseNotify(s, frame4(env.MAC2, ip4b))
			},
			func() {
				s.Capture(env.MAC1)
				s.IsCaptured(env.MAC1)
				s.Release(env.MAC1)
			},
			func() {
				s.SetDHCPv4IPOffer(env.MAC2, ip4a, packet.NameEntry{Name: "n2"})
				s.DHCPv4Update(env.MAC2, ip4a, packet.NameEntry{Name: "n2"})
			},
			func() {
				s.FindIP(ip4a)
				s.IPAddrs(env.MAC1)
				s.GetHosts()
			},
		)
		vsched.WaitIdle()
		x.observe(fmt.Sprintf("hosts=%d notes=%d captured=%v", len(s.GetHosts()), drain(s), s.IsCaptured(env.MAC1)))
		closeSession(x, s)
	}, sessionPost)

	// H4: arp handler: request from the hunted host || StartHunt/IsHunting/StopHunt || spoof loop || Close
	add("H4", 3, func(x *concExec) {
		concReset()
		s, _ := concSession()
		x.data["session"] = s
		h, _ := arp.New(s)
		target := packet.Addr{MAC: env.MAC1, IP: ip4a}
		req := refnet.Eth(bcast, env.MAC1, 0x0806, refnet.ARP(1, env.MAC1, ip4a, make([]byte, 6), ip4rtr))
		threads(
			func() {
				for i := 0; i < 2; i++ {
					if f, err := s.Parse(append([]byte(nil), req...)); err == nil {
						h.ProcessPacket(f)
						s.Notify(f)
					}
				}
			},
			func() {
				h.StartHunt(target)
				h.IsHunting(ip4a)
				h.StopHunt(target)
			},
		)
		h.Close()
		vsched.WaitIdle()
		x.observe(fmt.Sprintf("hunt=%d", h.VerifHuntLen()))
		closeSession(x, s)
	}, sessionPost)

	// H4b: two API goroutines start hunting the same station at the same time: StartHunt is idempotent per MAC, one loop
	add("H4b", 2, func(x *concExec) {
		concReset()
		s, _ := concSession()
		x.data["session"] = s
		h, _ := arp.New(s)
		target := packet.Addr{MAC: env.MAC1, IP: ip4a}
		x.data["t0"] = vsched.NowNanos()
		threads(
			func() { h.StartHunt(target) },
			func() { h.StartHunt(target); h.IsHunting(ip4a) },
		)
		vsched.WaitIdle() // every loop has sent its first announcement and waits for its ticker
		h.Close()
		vsched.WaitIdle()
		x.observe(fmt.Sprintf("hunt=%d", h.VerifHuntLen()))
		closeSession(x, s)
	}, func(x *concExec) {
		// one loop sends one announcement per cycle: two before the first cycle ended mean two loops (judged only on
		// executions where the explorer did not advance the clock past a runnable goroutine)
		s, _ := x.data["session"].(*packet.Session)
		t0, _ := x.data["t0"].(int64)
		if s != nil && x.data["earlyClock"].(int) == 0 {
			forged := 0
			for _, f := range s.Conn.(*env.Conn).Frames {
				info := refnet.DecodeSent(f.Data, env.HostMAC)
				if info.Kind == "arp" && info.ARPSpa == ip4rtr && bytes.Equal(info.ARPSha[:], env.HostMAC) && bytes.Equal(info.DstMAC[:], env.MAC1) && f.Time < t0+int64(6*time.Second) {
					forged++
				}
			}
			if forged > 1 {
				x.fail("idempotence", fmt.Sprintf("%d forged announcements before the first cycle ended after two concurrent StartHunt calls for one MAC: more than one loop is running", forged))
			}
		}
		sessionPost(x)
	})

	// H1b: the packet loop sees a frame from the very host that purge is marking offline
	add("H1b", 1, func(x *concExec) {
		concReset()
		s, _ := concSession()
		x.data["session"] = s
		parseNotify(s, frame4(env.MAC2, ip4b))
		vsched.Advance(int64(packet.DefaultOfflineDeadline + time.Minute)) // purge is due and will mark c2/b offline
		// (one packet, no reader: the harness is kept small because it is explored one deviation deeper than the others)
		threads(
			func() {
				parseNotify(s, frame4(env.MAC2, ip4b))
			},
		)
		vsched.WaitIdle()
		x.observe(fmt.Sprintf("hosts=%d notes=%d", len(s.GetHosts()), drain(s)))
		closeSession(x, s)
	}, sessionPost)

	// H5: icmp6 handler: router advertisements || StartHunt/StopHunt || spoof loop || Close
	add("H5", 3, func(x *concExec) {
		concReset()
		s, _ := concSession()
		x.data["session"] = s
		h, _ := icmp.New6(s)
		target := packet.Addr{MAC: env.MAC1, IP: lla1}
		ra := raFrame(env.RouterMAC, env.RouterLLA, 0x40, 1800, refnet.NDPOption(1, env.RouterMAC))
		threads(
			func() {
				for i := 0; i < 2; i++ {
					if f, err := s.Parse(append([]byte(nil), ra...)); err == nil {
						h.ProcessPacket(f)
						s.Notify(f)
					}
				}
			},
			func() {
				h.StartHunt(target)
				h.StopHunt(target)
			},
			func() {
				h.PrintTable()
				h.FindRouter(env.RouterLLA)
			},
		)
		h.Close()
		vsched.WaitIdle()
		x.observe(fmt.Sprintf("hunt=%d", h.VerifHuntLen()))
		closeSession(x, s)
	}, sessionPost)

	// H5c: icmp6 handler with an active hunt: Close || a router advertisement on the packet loop
	add("H5c", 3, func(x *concExec) {
		concReset()
		s, _ := concSession()
		x.data["session"] = s
		h, _ := icmp.New6(s)
		target := packet.Addr{MAC: env.MAC1, IP: lla1}
		ra := raFrame(env.RouterMAC, env.RouterLLA, 0x40, 1800, refnet.NDPOption(1, env.RouterMAC))
		if f, err := s.Parse(append([]byte(nil), ra...)); err == nil {
			h.ProcessPacket(f) // the router is learned
		}
		h.StartHunt(target)
		icmp.VerifReset() // the next router advertisement is examined again (the handler looks at one in four)
		threads(
			func() {
				if f, err := s.Parse(append([]byte(nil), ra...)); err == nil {
					h.ProcessPacket(f)
					s.Notify(f)
				}
			},
			func() {
				h.Close()
			},
		)
		vsched.WaitIdle()
		x.observe(fmt.Sprintf("hunt=%d", h.VerifHuntLen()))
		closeSession(x, s)
	}, sessionPost)

	// H6: dhcp handler: DISCOVER+REQUEST on the packet loop || MinuteTicker || capture toggles and offer accessors
	add("H6", 3, func(x *concExec) {
		concReset()
		s, conn := concSession()
		conn.Yield = false // the 256 packet attack burst would otherwise add 256 scheduling points
		x.data["session"] = s
		h, err := dhcp4.Config{Mode: dhcp4.ModeSecondaryServerNice, NetfilterIP: netip.MustParsePrefix("192.168.0.129/25"), DNSServer: ip4rtr, LeaseFilename: "leases.yaml"}.New(s)
		if err != nil {
			x.fail("setup", err.Error())
			return
		}
		disc := refnet.Eth(bcast, env.MAC1, 0x0800, refnet.IP4(ip4zero, ip4bc, 17, refnet.UDP(68, 67, dhcpDiscover(env.MAC1, 0x01020304)), refnet.IP4Opt{}))
		threads(
			func() {
				if f, err := s.Parse(append([]byte(nil), disc...)); err == nil {
					h.ProcessPacket(f)
					s.Notify(f)
				}
			},
			func() {
				h.MinuteTicker(time.Unix(0, vsched.NowNanos()))
			},
			func() {
				s.Capture(env.MAC1)
				s.DHCPv4IPOffer(env.MAC1)
				s.Release(env.MAC1)
			},
		)
		h.Close()
		vsched.WaitIdle()
		x.observe(fmt.Sprintf("leases=%d", len(h.VerifLeases())))
		closeSession(x, s)
	}, sessionPost)

	// H6b: dhcp handler: an INIT-REBOOT REQUEST for an unknown lease on the packet loop (NAK + forced DECLINE sent by a
	// goroutine of the handler) || reader
	add("H6b", 3, func(x *concExec) {
		concReset()
		s, conn := concSession()
		conn.Yield = false
		x.data["session"] = s
		h, err := dhcp4.Config{Mode: dhcp4.ModeSecondaryServer, NetfilterIP: netip.MustParsePrefix("192.168.0.129/25"), DNSServer: ip4rtr, LeaseFilename: "leases.yaml"}.New(s)
		if err != nil {
			x.fail("setup", err.Error())
			return
		}
		msg := refnet.DHCP4Msg{Op: 1, XID: 0x0a0b0c0d, CHAddr: env.MAC2, Options: [][2][]byte{{{53}, {3}}, {{50}, ip4b.AsSlice()}, {{61}, append([]byte{1}, env.MAC2...)}}}.Bytes()
		req := refnet.Eth(bcast, env.MAC2, 0x0800, refnet.IP4(ip4zero, ip4bc, 17, refnet.UDP(68, 67, msg), refnet.IP4Opt{}))
		threads(
			func() {
				buf := make([]byte, len(req), packet.EthMaxSize)
				copy(buf, req)
				if f, err := s.Parse(buf); err == nil {
					h.ProcessPacket(f)
					s.Notify(f)
				}
			},
			func() {
				s.FindIP(ip4b)
				s.IsCaptured(env.MAC2)
			},
		)
		vsched.WaitIdle()
		h.Close()
		vsched.WaitIdle()
		x.observe(fmt.Sprintf("leases=%d", len(h.VerifLeases())))
		closeSession(x, s)
	}, sessionPost)

	// H6c: dhcp handler: the packet loop sees every message type a server port can receive (a client's messages, and
	// the OFFER/ACK/NAK of another server relayed or broadcast to port 67) || MinuteTicker || PrintTable: no lock is kept
	add("H6c", 3, func(x *concExec) {
		concReset()
		s, conn := concSession()
		conn.Yield = false
		x.data["session"] = s
		h, err := dhcp4.Config{Mode: dhcp4.ModeSecondaryServer, NetfilterIP: netip.MustParsePrefix("192.168.0.129/25"), DNSServer: ip4rtr, LeaseFilename: "leases.yaml"}.New(s)
		if err != nil {
			x.fail("setup", err.Error())
			return
		}
		threads(
			func() {
				for mt := byte(1); mt <= 8; mt++ {
					msg := refnet.DHCP4Msg{Op: 1, XID: 0x0a0b0c00 + uint32(mt), CHAddr: env.MAC2, Options: [][2][]byte{{{53}, {mt}}, {{50}, ip4b.AsSlice()}, {{54}, ip4host.AsSlice()}}}.Bytes()
					raw := refnet.Eth(bcast, env.MAC2, 0x0800, refnet.IP4(ip4zero, ip4bc, 17, refnet.UDP(68, 67, msg), refnet.IP4Opt{}))
					buf := make([]byte, len(raw), packet.EthMaxSize)
					copy(buf, raw)
					if f, err := s.Parse(buf); err == nil {
						h.ProcessPacket(f)
						s.Notify(f)
					}
				}
			},
			func() {
				h.MinuteTicker(time.Unix(0, vsched.NowNanos()))
				h.PrintTable()
			},
		)
		vsched.WaitIdle()
		h.Close()
		vsched.WaitIdle()
		x.observe(fmt.Sprintf("leases=%d", len(h.VerifLeases())))
		closeSession(x, s)
	}, sessionPost)

	// H11: the packet loop notifying for a DHCP frame without source address (host found through its offer, a change
	// pending) || Capture / Release of that MAC
	add("H11", 3, func(x *concExec) {
		concReset()
		s, _ := concSession()
		x.data["session"] = s
		parseNotify(s, frame4(env.MAC1, ip4a))
		s.DHCPv4Update(env.MAC1, ip4a, packet.NameEntry{Type: "dhcp", Name: "n1"}) // offer recorded, name change pending
		disc := refnet.Eth(bcast, env.MAC1, 0x0800, refnet.IP4(ip4zero, ip4bc, 17, refnet.UDP(68, 67, dhcpDiscover(env.MAC1, 0x01020304)), refnet.IP4Opt{}))
		threads(
			func() {
				parseNotify(s, disc)
			},
			func() {
				s.Capture(env.MAC1)
				s.Release(env.MAC1)
			},
		)
		vsched.WaitIdle()
		x.observe(fmt.Sprintf("hosts=%d notes=%d", len(s.GetHosts()), drain(s)))
		closeSession(x, s)
	}, sessionPost)

	// H7: dns handler: ProcessDNS / ProcessMDNS on the packet loop || DNSFind / DNSExist / PrintDNSTable
	add("H7", 3, func(x *concExec) {
		concReset()
		s, _ := concSession()
		x.data["session"] = s
		h := dns.VerifNew(s)
		name := refnet.DNSName("www.example.com")
		resp := append(refnet.DNSHeader(7, 0x8180, 1, 1, 0, 0), refnet.DNSQuestion(name, 1, 1)...)
		resp = append(resp, refnet.DNSRR([]byte{0xc0, 12}, 1, 1, 60, []byte{1, 2, 3, 4})...)
		dnsFrame := refnet.Eth(env.MAC1, env.RouterMAC, 0x0800, refnet.IP4(ip4rtr, ip4a, 17, refnet.UDP(53, 40000, resp), refnet.IP4Opt{}))
		mname := refnet.DNSName("host1.local")
		mresp := append(refnet.DNSHeader(9, 0x8400, 0, 1, 0, 0), refnet.DNSRR(mname, 1, 1, 120, []byte{192, 168, 0, 10})...)
		mdnsFrame := refnet.Eth(env.McastMAC, env.MAC1, 0x0800, refnet.IP4(ip4a, netip.MustParseAddr("224.0.0.251"), 17, refnet.UDP(5353, 5353, mresp), refnet.IP4Opt{}))
		threads(
			func() {
				if f, err := s.Parse(append([]byte(nil), dnsFrame...)); err == nil {
					h.ProcessDNS(f)
				}
				for i := 0; i < 2; i++ {
					if f, err := s.Parse(append([]byte(nil), mdnsFrame...)); err == nil {
						h.ProcessMDNS(f)
					}
				}
			},
			func() {
				h.DNSFind("www.example.com")
				h.DNSExist(netip.MustParseAddr("1.2.3.4"))
				h.PrintDNSTable()
			},
		)
		vsched.WaitIdle()
		e := h.DNSFind("www.example.com")
		x.observe(fmt.Sprintf("a=%d", len(e.IP4Records)))
		h.Close()
		closeSession(x, s)
	}, sessionPost)

	// H7c: dns handler: the packet loop || Close of the handler
	add("H7c", 3, func(x *concExec) {
		concReset()
		s, _ := concSession()
		x.data["session"] = s
		h := dns.VerifNew(s)
		name := refnet.DNSName("www.example.com")
		resp := append(refnet.DNSHeader(7, 0x8180, 1, 1, 0, 0), refnet.DNSQuestion(name, 1, 1)...)
		resp = append(resp, refnet.DNSRR([]byte{0xc0, 12}, 1, 1, 60, []byte{1, 2, 3, 4})...)
		dnsFrame := refnet.Eth(env.MAC1, env.RouterMAC, 0x0800, refnet.IP4(ip4rtr, ip4a, 17, refnet.UDP(53, 40000, resp), refnet.IP4Opt{}))
		mname := refnet.DNSName("host1.local")
		mresp := append(refnet.DNSHeader(9, 0x8400, 0, 1, 0, 0), refnet.DNSRR(mname, 1, 1, 120, []byte{192, 168, 0, 10})...)
		mdnsFrame := refnet.Eth(env.McastMAC, env.MAC1, 0x0800, refnet.IP4(ip4a, netip.MustParseAddr("224.0.0.251"), 17, refnet.UDP(5353, 5353, mresp), refnet.IP4Opt{}))
		threads(
			func() {
				if f, err := s.Parse(append([]byte(nil), dnsFrame...)); err == nil {
					h.ProcessDNS(f)
				}
				if f, err := s.Parse(append([]byte(nil), mdnsFrame...)); err == nil {
					h.ProcessMDNS(f)
				}
			},
			func() {
				h.Close()
			},
		)
		vsched.WaitIdle()
		x.observe("closed")
		closeSession(x, s)
	}, sessionPost)

	// H12: shutdown from two places at once (a signal handler and a deferred cleanup): every Close is called by two
	// goroutines
	add("H12", 3, func(x *concExec) {
		concReset()
		s, _ := concSession()
		x.data["session"] = s
		a, _ := arp.New(s)
		h6, _ := icmp.New6(s)
		d, err := dhcp4.Config{Mode: dhcp4.ModeSecondaryServer, NetfilterIP: netip.MustParsePrefix("192.168.0.129/25"), DNSServer: ip4rtr, LeaseFilename: "leases.yaml"}.New(s)
		if err != nil {
			x.fail("setup", err.Error())
			return
		}
		n := dns.VerifNew(s)
		shutdown := func() {
			d.Close()
			a.Close()
			h6.Close()
			n.Close()
			s.Close()
		}
		threads(shutdown, shutdown)
		vsched.WaitIdle()
		x.observe("closed")
	}, sessionPost)

	// H14: two API goroutines capture the same, not yet known MAC || a third one sets an offer for it: one MAC entry
	add("H14", 3, func(x *concExec) {
		concReset()
		s, _ := concSession()
		x.data["session"] = s
		threads(
			func() { s.Capture(env.MAC3); s.IsCaptured(env.MAC3) },
			func() { s.Capture(env.MAC3); s.Release(env.MAC3) },
			func() { s.SetDHCPv4IPOffer(env.MAC3, ip4b, packet.NameEntry{}); s.DHCPv4IPOffer(env.MAC3) },
		)
		vsched.WaitIdle()
		n := 0
		for _, e := range s.MACTable.Table {
			if bytes.Equal(e.MAC, env.MAC3) {
				n++
			}
		}
		if n != 1 {
			x.fail("invariant", fmt.Sprintf("%d MAC entries for the captured MAC, want exactly one", n))
		}
		x.observe(fmt.Sprintf("captured=%v", s.IsCaptured(env.MAC3)))
		closeSession(x, s)
	}, sessionPost)

	// H13: the packet loop's read fails (the interface went away) || Session.Close
	add("H13", 3, func(x *concExec) {
		concReset()
		s, _ := concSession()
		x.data["session"] = s
		threads(
			func() {
				buf := make([]byte, packet.EthMaxSize)
				_, _, err := s.ReadFrom(buf)
				x.observe(fmt.Sprintf("read=%v", err))
			},
			func() {
				s.Close()
			},
		)
		vsched.WaitIdle()
	}, sessionPost)

	// H8: Session.Close || purge with a host going offline || packet loop
	add("H8", 4, func(x *concExec) {
		concReset()
		s, _ := concSession()
		x.data["session"] = s
		parseNotify(s, frame4(env.MAC1, ip4a))
		vsched.Advance(int64(packet.DefaultOfflineDeadline + time.Minute)) // purge is due and will send an offline notification
		threads(
			func() {
				s.Close()
			},
			func() {
				parseNotify(s, frame4(env.MAC2, ip4b))
			},
		)
		vsched.WaitIdle()
		x.observe(fmt.Sprintf("hosts=%d", len(s.GetHosts())))
	}, sessionPost)

	// H9: Ping || echo reply on the packet loop || timeout
	add("H9", 3, func(x *concExec) {
		concReset()
		s, conn := concSession()
		x.data["session"] = s
		dst := packet.Addr{MAC: env.MAC1, IP: ip4a}
		var perr error
		threads(
			func() { perr = s.Ping(dst, time.Second*2) },
			func() {
				// reply to the echo request once it is on the wire (id is read from the captured request)
				vsched.Yield()
				for _, id := range echoRequestIDs(conn, false) {
					reply := refnet.Eth(env.HostMAC, env.MAC1, 0x0800, refnet.IP4(ip4a, ip4host, 1, refnet.ICMP4(0, 0, [4]byte{byte(id >> 8), byte(id), 0, 1}, []byte("data")), refnet.IP4Opt{}))
					parseNotify(s, reply)
				}
			},
		)
		x.observe(fmt.Sprintf("ping=%v waiters=%d", perr, packet.VerifICMPWaiters()))
		closeSession(x, s)
	}, sessionPost)
	return list
}

func raFrame(mac []byte, src netip.Addr, flags byte, lifetime uint16, options []byte) []byte {
	body := refnet.RA(64, flags, lifetime, 0, 0, options)
	return refnet.Eth([]byte{0x33, 0x33, 0, 0, 0, 1}, mac, 0x86dd, refnet.IP6(src, mc6, 58, 255, refnet.ICMP6(src, mc6, 134, 0, body), -1))
}

func c09Run(c *core.Ctx, args []string) {
	c.Res.Level = "model_checking"
	c.Res.Rule = "stateless DFS over every schedule of each harness H1..H15, H1b, H4b, H5c, H6b, H6c, H7c (2-4 API/packet-loop threads plus the goroutines the code starts itself plus the clock) up to the deviation bound (thorough: each harness also with its threads started in the two rotated orders); every execution runs to completion under the controlled scheduler; oracles: no deadlock, no panic, no data race (race detector build, scheduler hand-offs invisible to it), table invariant at the final quiescent point, no goroutine left after Close. distinct = distinct observation vectors"
	c.Res.Assumptions = []string{"scheduling points at every lock, channel, spawn, timer and connection write of the instrumented packages; unsynchronised accesses are caught by the race detector on the explored schedules rather than interleaved", "bounded by the deviation (preemption) bound and the clock horizon; at most 4 harness threads (H15: three API callers next to the packet loop, purge and the notification consumer)"}
	name := strings.TrimSuffix(c.Job, ".race")
	bound := 2 // both tiers; the thorough tier adds the rotated thread orders of every harness
	if v, ok := c.Args["bound"]; ok {
		bound = v
	}
	for _, sc := range c09Scenarios() {
		if sc.name == name {
			b := bound
			if strings.HasPrefix(sc.name, "H1b") && strings.HasSuffix(c.Job, ".race") {
				b++ // a small harness whose interesting schedules (purge preempted between its scan and its action, the packet loop in between) need three deviations
			}
			if strings.HasPrefix(sc.name, "H15") && !c.Thorough() {
				b-- // four harness threads: deviation bound 1 on every change (≈ 5 k schedules), bound 2 (≈ 230 k schedules, two minutes) in the thorough tier
			}
			exploreScenario(c, "C09", sc, b)
		}
	}
	c.Res.Bound = fmt.Sprintf("deviation bound %d", bound)
	c.Res.Counters["states"] = int64(c.DistinctCount())
	c.Sample(map[string]any{"scenario": name, "schedule": "list of choice indices at each scheduling point; [] is the default (non preemptive) schedule"}, 4)
}

func init() {
	Registry["C09"] = &Driver{
		Plan: func(tier string) []core.Job {
			var names, rnames []string
			for _, sc := range c09Scenarios() {
				if strings.Contains(sc.name, "~") && tier != "thorough" {
					continue
				}
				names = append(names, sc.name)
				rnames = append(rnames, sc.name+".race")
			}
			n := 4
			jobs := concJobs(names, n, false, 1700)
			jobs = append(jobs, concJobs(rnames, n, true, 1700)...)
			return jobs
		},
		Run:    c09Run,
		Replay: concReplayer(c09Scenarios),
	}
}

// echoRequestIDs reads the identifiers of the echo requests captured so far. The recording connection is harness
// state shared between controlled goroutines without program-level synchronisation, hence norace.
//
//go:norace
func echoRequestIDs(conn *env.Conn, v6 bool) []uint16 {
	var ids []uint16
	for i := 0; i < len(conn.Frames); i++ {
		d := conn.Frames[i].Data
		if !v6 && len(d) >= 42 && d[12] == 0x08 && d[13] == 0x00 && d[23] == 1 && d[34] == 8 {
			ids = append(ids, uint16(d[38])<<8|uint16(d[39]))
		}
		if v6 && len(d) >= 62 && d[12] == 0x86 && d[13] == 0xdd && d[20] == 58 && d[54] == 128 {
			ids = append(ids, uint16(d[58])<<8|uint16(d[59]))
		}
	}
	return ids
}
