package props

import (
	"encoding/hex"
	"fmt"
	"net"
	"reflect"
	"runtime"
	"strings"
	"unsafe"

	"harness/core"
	"harness/env"

	"github.com/irai/packet"
	"github.com/irai/packet/verifshim/vfuel"
)

// C01: parsing is total and memory safe.

const opFuel = 20_000
const viewFuel = 5_000

type c01Replay struct {
	Kind  string `json:"kind"` // parse | view
	Hex   string `json:"hex"`
	Spare int    `json:"spare"` // parse: spare capacity
	Fill  int    `json:"fill"`
	Tail  string `json:"tail,omitempty"` // parse: the bytes of the un-truncated frame that lie in the spare capacity
	Type  string `json:"type,omitempty"`
}

type parseOut struct {
	panicked string
	errNil   bool
	pid      int
	offs     [6]int // ether len, ip4, ip6, udp, tcp, payload offsets (-1 = nil)
	lens     [6]int
	srcMAC   string
	dstMAC   string
	srcIP    string
	dstIP    string
	sport    uint16
	dport    uint16
	hasIP    bool
	hostIP   string
	outside  string // description of a slice that is not inside the input
}

// site extracts the innermost repository function from a panic stack.
func panicSite() string {
	pcs := make([]uintptr, 40)
	n := runtime.Callers(3, pcs)
	frames := runtime.CallersFrames(pcs[:n])
	for {
		f, more := frames.Next()
		if strings.HasPrefix(f.Function, "github.com/irai/packet") && !strings.Contains(f.Function, "verifshim") {
			return strings.TrimPrefix(f.Function, "github.com/irai/packet")
		}
		if !more {
			break
		}
	}
	return "?"
}

func inside(base []byte, s []byte) bool {
	if len(s) == 0 {
		return true
	}
	if len(base) == 0 {
		return false
	}
	b0 := uintptr(unsafe.Pointer(unsafe.SliceData(base)))
	s0 := uintptr(unsafe.Pointer(unsafe.SliceData(s)))
	return s0 >= b0 && s0+uintptr(len(s)) <= b0+uintptr(len(base))
}

func offOf(base []byte, s []byte) int {
	if s == nil {
		return -1
	}
	if len(s) == 0 || len(base) == 0 {
		return -2 // the data pointer of an empty slice carries no information
	}
	return int(uintptr(unsafe.Pointer(unsafe.SliceData(s))) - uintptr(unsafe.Pointer(unsafe.SliceData(base))))
}

// runParse executes Session.Parse and every Frame accessor on in.
func runParse(s *packet.Session, in []byte) (out parseOut) {
	defer func() {
		if e := recover(); e != nil {
			out.panicked = fmt.Sprintf("%v @%s", e, panicSite())
		}
	}()
	vfuel.Set(opFuel)
	frame, err := s.Parse(in)
	out.errNil = err == nil
	if err != nil {
		return out
	}
	out.pid = int(frame.PayloadID)
	views := [6][]byte{frame.Ether(), frame.IP4(), frame.IP6(), frame.UDP(), frame.TCP(), frame.Payload()}
	names := [6]string{"Ether", "IP4", "IP6", "UDP", "TCP", "Payload"}
	for i, v := range views {
		out.offs[i] = offOf(in, v)
		out.lens[i] = len(v)
		if !inside(in, v) {
			out.outside = fmt.Sprintf("%s() off=%d len=%d input len=%d", names[i], offOf(in, v), len(v), len(in))
		}
	}
	out.hasIP = frame.HasIP()
	out.srcMAC, out.dstMAC = string(frame.SrcAddr.MAC), string(frame.DstAddr.MAC)
	if !inside(in, frame.SrcAddr.MAC) || !inside(in, frame.DstAddr.MAC) {
		out.outside = "SrcAddr/DstAddr MAC"
	}
	out.srcIP, out.dstIP = frame.SrcAddr.IP.String(), frame.DstAddr.IP.String()
	out.sport, out.dport = frame.SrcAddr.Port, frame.DstAddr.Port
	if frame.Host != nil {
		out.hostIP = frame.Host.Addr.IP.String()
	}
	return out
}

func variant(in []byte, spare int, fill byte) []byte {
	b := make([]byte, len(in)+spare)
	copy(b, in)
	for i := len(in); i < len(b); i++ {
		b[i] = fill
	}
	return b[:len(in)]
}

type c01State struct {
	s *packet.Session
}

func (st *c01State) session() *packet.Session {
	if st.s == nil {
		st.s, _ = env.NewSession(env.DefaultNIC(), packet.Config{})
	}
	return st.s
}

func (st *c01State) reset() {
	if st.s != nil {
		st.s.Close()
	}
	st.s = nil
}

// c01ParseOne runs one input in the three capacity variants.
func c01ParseOne(c *core.Ctx, st *c01State, name string, in []byte, tail []byte) {
	type vv struct {
		spare int
		fill  byte
		tail  bool
	}
	variants := []vv{{0, 0, false}, {64, 0x00, false}, {64, 0xff, false}}
	if len(tail) > 0 {
		// a read buffer that still holds the rest of a longer (well formed) frame behind the bytes just received
		variants = append(variants, vv{len(tail), 0, true})
	}
	c.Count("evaluations", int64(len(variants)))
	c.Count("parse_calls", int64(len(variants)))
	outs := make([]parseOut, len(variants))
	for i, v := range variants {
		buf := variant(in, v.spare, v.fill)
		if v.tail {
			whole := append(append([]byte(nil), in...), tail...)
			buf = whole[:len(in)]
		}
		outs[i] = runParse(st.session(), buf)
		if outs[i].panicked != "" {
			st.reset()
		}
	}
	if outs[0].errNil {
		c.Count("accepted", 1)
		c.Distinct(in)
	}
	class := name
	if i := strings.LastIndex(name, "#"); i >= 0 {
		class = name[:i]
	}
	for i, o := range outs {
		rp := c01Replay{Kind: "parse", Hex: hex.EncodeToString(in), Spare: variants[i].spare, Fill: int(variants[i].fill)}
		if variants[i].tail {
			rp.Tail = hex.EncodeToString(tail)
		}
		if o.panicked != "" {
			site := o.panicked[strings.LastIndex(o.panicked, "@")+1:]
			if strings.Contains(o.panicked, "budget exhausted") {
				c.Violate("parse-nontermination|"+site, fmt.Sprintf("Parse does not terminate on %s len=%d: %s", class, len(in), o.panicked), rp)
			} else {
				c.Violate("parse-panic|"+site, fmt.Sprintf("Parse/accessor panics on %s len=%d cap=%d: %s input=%x", class, len(in), len(in)+variants[i].spare, o.panicked, trunc(in, 64)), rp)
			}
			return
		}
		if o.outside != "" {
			c.Violate("parse-outside|"+strings.Fields(o.outside)[0], fmt.Sprintf("view not inside the input on %s len=%d spare=%d: %s", class, len(in), variants[i].spare, o.outside), rp)
			return
		}
	}
	for i := 1; i < len(outs); i++ {
		a, b := outs[0], outs[i]
		a.hostIP, b.hostIP = "", ""
		if a != b {
			rp := c01Replay{Kind: "parse", Hex: hex.EncodeToString(in), Spare: variants[i].spare, Fill: int(variants[i].fill)}
			if variants[i].tail {
				rp.Tail = hex.EncodeToString(tail)
			}
			c.Violate("parse-capacity-dependence|"+diffField(a, b), fmt.Sprintf("Parse result depends on spare capacity (%s) on %s len=%d: cap=len gives %+v, spare=%d fill=%#x gives %+v", diffField(a, b), class, len(in), a, variants[i].spare, variants[i].fill, b), rp)
			return
		}
	}
}

func diffField(a, b parseOut) string {
	switch {
	case a.errNil != b.errNil:
		return "error"
	case a.pid != b.pid:
		return "PayloadID"
	case a.offs != b.offs:
		return "offsets"
	case a.lens != b.lens:
		return "lengths"
	}
	return "addresses"
}

// ---- views ----

type viewSpec struct {
	name    string
	min     int                // minimum valid length
	mk      func(b []byte) any // converts bytes into the view value
	control []int              // offsets enumerated jointly over the alphabet
	valid   func() []byte      // a valid instance for the single byte substitution sweep
}

// viewSigma: per view alphabets for the control offsets (default sigma7). The Ether view is enumerated over the EtherType
// bytes of IPv4, ARP, IPv6, 802.1Q and 802.1ad.
var viewSigma = map[string][]byte{"Ether": {0x00, 0x06, 0x08, 0x81, 0x86, 0x88, 0xa8, 0xdd, 0xff}}

func viewSpecs() []viewSpec {
	ip4pkt := func() []byte { return refIP4UDP() }
	return []viewSpec{
		{"Ether", 14, func(b []byte) any { return packet.Ether(b) }, []int{12, 13, 0, 6}, func() []byte { return frameTemplatesByName("udp4-40000-53") }},
		{"IP4", 20, func(b []byte) any { return packet.IP4(b) }, []int{0, 2, 3, 6, 9}, ip4pkt},
		{"IP6", 40, func(b []byte) any { return packet.IP6(b) }, []int{0, 4, 5, 6, 7}, func() []byte { return frameTemplatesByName("udp6-40000-53")[14:] }},
		{"UDP", 8, func(b []byte) any { return packet.UDP(b) }, []int{0, 2, 4, 5, 6}, func() []byte { return ip4pkt()[20:] }},
		{"TCP", 20, func(b []byte) any { return packet.TCP(b) }, []int{12, 13, 0, 2, 19}, func() []byte { return frameTemplatesByName("tcp4-doff5")[34:] }},
		{"ARP", 28, func(b []byte) any { return packet.ARP(b) }, []int{0, 1, 2, 4, 5}, func() []byte { return frameTemplatesByName("arp-reply")[14:] }},
		{"ICMP", 8, func(b []byte) any { return packet.ICMP(b) }, []int{0, 1, 2, 4, 7}, func() []byte { return frameTemplatesByName("icmp4-8")[34:] }},
		{"ICMPEcho", 8, func(b []byte) any { return packet.ICMPEcho(b) }, []int{0, 1, 4, 5, 6}, func() []byte { return frameTemplatesByName("icmp4-0")[34:] }},
		{"ICMP4Redirect", 8, func(b []byte) any { return packet.ICMP4Redirect(b) }, []int{0, 4, 5, 6, 1}, func() []byte {
			b := make([]byte, 8+2*16)
			b[0], b[4], b[5] = 137, 2, 4
			return b
		}},
		{"ICMP6RouterSolicitation", 8, func(b []byte) any { return packet.ICMP6RouterSolicitation(b) }, []int{0, 8, 9, 24, 25}, func() []byte {
			b := make([]byte, 32)
			b[0], b[8], b[9], b[24], b[25] = 133, 1, 3, 1, 1
			return b
		}},
		{"ICMP6RouterAdvertisement", 16, func(b []byte) any { return packet.ICMP6RouterAdvertisement(b) }, []int{0, 5, 16, 17, 18}, func() []byte {
			b := make([]byte, 16+8+32)
			b[0], b[16], b[17] = 134, 1, 1
			b[24], b[25], b[26] = 3, 4, 64
			return b
		}},
		{"ICMP6NeighborAdvertisement", 24, func(b []byte) any { return packet.ICMP6NeighborAdvertisement(b) }, []int{0, 4, 24, 25, 8}, func() []byte {
			b := make([]byte, 32)
			b[0], b[24], b[25] = 136, 2, 1
			return b
		}},
		{"ICMP6NeighborSolicitation", 24, func(b []byte) any { return packet.ICMP6NeighborSolicitation(b) }, []int{0, 8, 24, 25, 26}, func() []byte {
			b := make([]byte, 32)
			b[0], b[24], b[25] = 135, 1, 1
			return b
		}},
		{"ICMP6Redirect", 40, func(b []byte) any { return packet.ICMP6Redirect(b) }, []int{0, 40, 41, 42, 8}, func() []byte {
			b := make([]byte, 48)
			b[0], b[40], b[41] = 137, 2, 1
			return b
		}},
		{"DHCP4", 240, func(b []byte) any { return packet.DHCP4(b) }, []int{0, 2, 240, 241, 242}, func() []byte { return dhcpDiscover(env.MAC1, 7) }},
		{"DNS", 12, func(b []byte) any { return packet.DNS(b) }, []int{2, 3, 4, 5, 7}, func() []byte { return frameTemplatesByName("dns-query")[42:] }},
		{"LLC", 3, func(b []byte) any { return packet.LLC(b) }, []int{0, 1, 2, 3, 4}, func() []byte { return []byte{0x42, 0x42, 0x03, 0, 0, 0, 0} }},
		{"SNAP", 9, func(b []byte) any { return packet.SNAP(b) }, []int{0, 1, 2, 6, 7}, func() []byte { return []byte{0xaa, 0xaa, 0x03, 0, 0, 0, 0x08, 0x00, 1, 2} }},
		{"RRCP", 16, func(b []byte) any { return packet.RRCP(b) }, []int{0, 1, 2, 3, 4}, func() []byte { b := make([]byte, 46); b[0] = 0x23; return b }},
		{"LLDP", 6, func(b []byte) any { return packet.LLDP(b) }, []int{0, 1, 2, 3, 4}, func() []byte {
			return []byte{0x02, 0x07, 4, 1, 2, 3, 4, 5, 6, 0x04, 0x03, 7, 0x31, 0x32, 0x06, 0x02, 0, 120, 0x0e, 0x04, 0, 0x14, 0, 0x14, 0, 0, 0, 0, 0, 0}
		}},
		{"IEEE1905", 8, func(b []byte) any { return packet.IEEE1905(b) }, []int{0, 1, 2, 6, 7}, func() []byte { return make([]byte, 46) }},
		{"EthernetPause", 46, func(b []byte) any { return packet.EthernetPause(b) }, []int{0, 1, 2, 3, 4}, func() []byte { b := make([]byte, 46); b[1] = 1; return b }},
		{"HopByHopExtensionHeader", 2, func(b []byte) any { return packet.HopByHopExtensionHeader(b) }, []int{0, 1, 2, 3, 4}, func() []byte { return []byte{58, 0, 5, 2, 0, 0, 1, 0} }},
		{"Unknown880a", 1, func(b []byte) any { return packet.Unknown880a(b) }, []int{0}, func() []byte { return []byte{1, 2, 3} }},
	}
}

var tmplCache map[string][]byte

func frameTemplatesByName(name string) []byte {
	if tmplCache == nil {
		tmplCache = map[string][]byte{}
		for _, t := range frameTemplates(true) {
			tmplCache[t.Name] = t.Frame
		}
	}
	f, ok := tmplCache[name]
	if !ok {
		panic("no template " + name)
	}
	return append([]byte(nil), f...)
}

func refIP4UDP() []byte { return frameTemplatesByName("udp4-40000-53")[14:] }

var errType = reflect.TypeOf((*error)(nil)).Elem()

// isValid calls IsValid on the view (error or bool flavour).
func isValid(v reflect.Value) bool {
	m := v.MethodByName("IsValid")
	if !m.IsValid() {
		return true
	}
	out := m.Call(nil)
	if out[0].Kind() == reflect.Bool {
		return out[0].Bool()
	}
	return out[0].IsNil()
}

// checkInside walks a returned value and verifies that every byte slice lies inside the view.
func checkInside(view []byte, v reflect.Value, depth int) string {
	if depth > 3 {
		return ""
	}
	switch v.Kind() {
	case reflect.Slice:
		if v.Type().Elem().Kind() == reflect.Uint8 {
			b := v.Bytes()
			if !inside(view, b) {
				return fmt.Sprintf("slice len=%d outside the view (len %d)", len(b), len(view))
			}
			return ""
		}
		for i := 0; i < v.Len(); i++ {
			if s := checkInside(view, v.Index(i), depth+1); s != "" {
				return s
			}
		}
	case reflect.Map:
		it := v.MapRange()
		for it.Next() {
			if s := checkInside(view, it.Value(), depth+1); s != "" {
				return s
			}
		}
	}
	return ""
}

// viewGetters invokes every zero argument method (except String/FastLog/IsValid) of a valid view.
// fresh copies (net.IP built by the NDP option parser, ICMP.Payload's empty slice) are legitimate: only slices that
// alias memory outside the view while overlapping the buffer area are rejected, i.e. a slice is accepted when it is
// inside the view or does not overlap the enclosing buffer at all.
func viewGetters(c *core.Ctx, spec viewSpec, whole []byte, view []byte, skipOutside bool) (ok bool) {
	val := reflect.ValueOf(spec.mk(view))
	valid := false
	func() {
		defer func() {
			if e := recover(); e != nil {
				c.Violate("view-panic|"+spec.name+".IsValid", fmt.Sprintf("%s.IsValid panics on len=%d: %v", spec.name, len(view), e), c01Replay{Kind: "view", Type: spec.name, Hex: hex.EncodeToString(view), Spare: cap(view) - len(view)})
			}
		}()
		vfuel.Set(viewFuel)
		valid = isValid(val)
	}()
	if !valid {
		return false
	}
	t := val.Type()
	for i := 0; i < t.NumMethod(); i++ {
		m := t.Method(i)
		if m.Name == "String" || m.Name == "FastLog" || m.Name == "IsValid" || strings.HasPrefix(m.Name, "Set") || strings.HasPrefix(m.Name, "Append") {
			continue
		}
		var argSets [][]reflect.Value
		switch m.Type.NumIn() {
		case 1:
			argSets = [][]reflect.Value{nil}
		case 2:
			if m.Type.In(1).Kind() == reflect.Int && spec.name == "LLDP" && m.Name == "GetPDU" {
				for _, a := range []int{0, 1, 2, 3, 5, 7, 8, 127} {
					argSets = append(argSets, []reflect.Value{reflect.ValueOf(a)})
				}
			} else {
				continue
			}
		default:
			continue
		}
		for _, args := range argSets {
			var res []reflect.Value
			perr := func() (perr any) {
				defer func() {
					if e := recover(); e != nil {
						perr = fmt.Sprintf("%v @%s", e, panicSite())
					}
				}()
				vfuel.Set(viewFuel)
				res = val.Method(i).Call(args)
				return nil
			}()
			c.Count("getter_calls", 1)
			rp := c01Replay{Kind: "view", Type: spec.name, Hex: hex.EncodeToString(view), Spare: cap(view) - len(view)}
			if perr != nil {
				kind := "view-panic"
				if strings.Contains(fmt.Sprint(perr), "budget exhausted") {
					kind = "view-nontermination"
				}
				c.Violate(kind+"|"+spec.name+"."+m.Name, fmt.Sprintf("%s.%s panics after IsValid()==nil on len=%d: %v view=%x", spec.name, m.Name, len(view), perr, trunc(view, 64)), rp)
				return true
			}
			for _, r := range res {
				if r.Kind() == reflect.Interface || r.Kind() == reflect.Struct {
					continue // errors, parsed option structures (copies)
				}
				if s := checkInside(view, r, 0); s != "" {
					// copies are fine: only complain when the slice points into the enclosing buffer but not the view
					if r.Kind() == reflect.Slice && r.Type().Elem().Kind() == reflect.Uint8 && !overlaps(whole, r.Bytes()) {
						continue
					}
					if r.Kind() != reflect.Slice || r.Type().Elem().Kind() != reflect.Uint8 {
						// composite: accept elements that do not overlap the enclosing buffer
						if !compositeOverlaps(whole, view, r) {
							continue
						}
					}
					c.Violate("view-outside|"+spec.name+"."+m.Name, fmt.Sprintf("%s.%s returns %s", spec.name, m.Name, s), rp)
					return true
				}
			}
		}
	}
	_ = net.IP{}
	return true
}

func overlaps(whole []byte, s []byte) bool {
	if len(s) == 0 || len(whole) == 0 {
		return false
	}
	w0 := uintptr(unsafe.Pointer(unsafe.SliceData(whole)))
	s0 := uintptr(unsafe.Pointer(unsafe.SliceData(s)))
	return s0 < w0+uintptr(len(whole)) && s0+uintptr(len(s)) > w0
}

func compositeOverlaps(whole, view []byte, v reflect.Value) bool {
	switch v.Kind() {
	case reflect.Slice:
		if v.Type().Elem().Kind() == reflect.Uint8 {
			b := v.Bytes()
			return overlaps(whole, b) && !inside(view, b)
		}
		for i := 0; i < v.Len(); i++ {
			if compositeOverlaps(whole, view, v.Index(i)) {
				return true
			}
		}
	case reflect.Map:
		it := v.MapRange()
		for it.Next() {
			if compositeOverlaps(whole, view, it.Value()) {
				return true
			}
		}
	}
	return false
}

var sigma7 = []byte{0x00, 0x01, 0x02, 0x06, 0x7f, 0x80, 0xff}

// c01ViewSweep enumerates lengths x fills x alphabet strings over the control offsets of one view type.
func c01ViewSweep(c *core.Ctx, spec viewSpec, k int) {
	maxLen := spec.min + 40
	// the view sits in the middle of a larger buffer so that out-of-view slices that stay inside the array are caught
	for l := 0; l <= maxLen; l++ {
		for _, fill := range []byte{0x00, 0xff, 0x5a} {
			whole := make([]byte, l+32)
			for i := range whole {
				whole[i] = fill
			}
			view := whole[16 : 16+l : 16+l]
			if fill == 0x5a {
				view = whole[16 : 16+l] // this variant has spare capacity behind the view
			}
			offs := []int{}
			for _, o := range spec.control {
				if o < l && len(offs) < k {
					offs = append(offs, o)
				}
			}
			sigma := sigma7
			if vs := viewSigma[spec.name]; vs != nil {
				sigma = vs
			}
			total := 1
			for range offs {
				total *= len(sigma)
			}
			for n := 0; n < total; n++ {
				x := n
				for _, o := range offs {
					view[o] = sigma[x%len(sigma)]
					x /= len(sigma)
				}
				c.Count("evaluations", 1)
				c.Count("view_instances", 1)
				if viewGetters(c, spec, whole, view, false) {
					c.Count("view_valid", 1)
					c.Distinct(append([]byte(spec.name), view...))
				}
			}
		}
	}
	// single byte exhaustive substitution on a valid instance, and every truncation of it
	base := spec.valid()
	for pos := 0; pos < len(base) && pos < 300; pos++ {
		for v := 0; v < 256; v++ {
			whole := make([]byte, len(base)+32)
			view := whole[16 : 16+len(base) : 16+len(base)]
			copy(view, base)
			view[pos] = byte(v)
			c.Count("evaluations", 1)
			c.Count("view_instances", 1)
			if viewGetters(c, spec, whole, view, false) {
				c.Count("view_valid", 1)
				c.Distinct(append([]byte(spec.name), view...))
			}
		}
	}
	// NDP messages: every option type of the decoder x every length byte x option areas of several sizes (a length
	// field of 32 or more exceeds a byte once multiplied by 8), exact capacity and spare capacity
	if hdr := map[string]int{"ICMP6RouterAdvertisement": 16, "ICMP6RouterSolicitation": 8}[spec.name]; hdr != 0 {
		for _, typ := range []byte{0, 1, 2, 3, 5, 14, 24, 25, 31, 255} {
			for lb := 0; lb < 256; lb++ {
				for _, area := range []int{2, 8, 16, 24, 40, 264, 272, 520} {
					for _, fill := range []byte{0x00, 0xff} {
						whole := make([]byte, hdr+area+32)
						for i := range whole {
							whole[i] = fill
						}
						view := whole[16 : 16+hdr+area : 16+hdr+area]
						if fill == 0xff {
							view = whole[16 : 16+hdr+area]
						}
						copy(view, base[:hdr])
						view[hdr], view[hdr+1] = typ, byte(lb)
						c.Count("evaluations", 1)
						c.Count("view_instances", 1)
						if viewGetters(c, spec, whole, view, false) {
							c.Count("view_valid", 1)
							c.Distinct(append([]byte(spec.name), view[:hdr+2]...))
						}
					}
				}
			}
		}
	}
	for n := 0; n <= len(base); n++ {
		whole := make([]byte, n+32)
		view := whole[16 : 16+n : 16+n]
		copy(view, base[:n])
		c.Count("evaluations", 1)
		c.Count("view_instances", 1)
		if viewGetters(c, spec, whole, view, false) {
			c.Count("view_valid", 1)
		}
	}
}

func c01Run(c *core.Ctx, args []string) {
	c.Res.Level = "exploration"
	c.Res.Rule = "(A) every structural frame template (EtherType x source MAC class x IPv4 IHL/TotalLen/protocol, IPv6 payload length/next header, UDP port alphabet, TCP data offsets, ICMP types, ARP hlen/plen, VLAN tags, long frames) truncated at EVERY length 0..L, each in 4 capacity variants (cap=len, +64 spare bytes 0x00, +64 spare bytes 0xff, and the rest of the un-truncated frame left in the spare capacity as in a reused read buffer); (B) for each of the 24 exported view types every length 0..min+40 x 3 fills x all strings over {00,01,02,06,7f,80,ff} on the type's control offsets (quick: 3 offsets, thorough: 5), all 256 values at every position of a valid instance and every truncation of it; for the two NDP message views with options every option type x every length byte 0..255 x 8 option-area sizes x 2 fills; after IsValid()==nil every zero-argument getter is invoked by reflection. distinct non-trivial = distinct inputs accepted by Parse (A) or passing IsValid (B)"
	c.Res.Assumptions = []string{"memory safety is observed through recovered panics, pointer-range checks on returned slices and a deterministic loop-iteration budget (non-termination)", "inputs outside the templates/alphabets are not explored"}
	st := &c01State{}
	tmpls := frameTemplates(c.Thorough())
	for ti, t := range tmpls {
		if !c.Mine(ti) {
			continue
		}
		c.Progress("parse " + t.Name)
		maxN := len(t.Frame)
		for n := 0; n <= maxN; n++ {
			if maxN > 200 && n > 120 && n < maxN-8 && !c.Thorough() && n%64 != 0 {
				continue // long frames: quick tier keeps the first 120 lengths, every 64th and the last 8
			}
			c01ParseOne(c, st, t.Name+"#"+itoa(n), t.Frame[:n], t.Frame[n:])
		}
		c.Count("templates", 1)
	}
	k := 3
	if c.Thorough() {
		k = 5
	}
	for vi, spec := range viewSpecs() {
		if !c.Mine(vi + 7) {
			continue
		}
		c.Progress("view " + spec.name)
		c01ViewSweep(c, spec, k)
	}
	c.Sample(map[string]any{"kind": "parse", "template": "eth-8021q-ip4", "truncated_to": 16, "capacity": "len+64 (0xff)"}, 8)
	c.Sample(map[string]any{"kind": "view", "type": "IP4", "len": 20, "control_bytes": "45 00 13 .. (TotalLen<IHL)"}, 8)
	st.reset()
}

func c01Replayer(data []byte) string {
	var r c01Replay
	if jsonUnmarshal(data, &r) != nil {
		return ""
	}
	in, _ := hex.DecodeString(r.Hex)
	c := core.NewCtx("C01", "quick", "replay", 0, 1, "")
	switch r.Kind {
	case "parse":
		tail, _ := hex.DecodeString(r.Tail)
		c01ParseOne(c, &c01State{}, "replay", in, tail)
	case "view":
		for _, spec := range viewSpecs() {
			if spec.name == r.Type {
				whole := make([]byte, len(in)+32)
				view := whole[16 : 16+len(in) : 16+len(in)]
				if r.Spare > 0 {
					view = whole[16 : 16+len(in)]
				}
				copy(view, in)
				viewGetters(c, spec, whole, view, false)
			}
		}
	}
	if len(c.Res.Violations) > 0 {
		return c.Res.Violations[0].Sig + ": " + c.Res.Violations[0].What
	}
	return ""
}

func init() {
	Registry["C01"] = &Driver{
		Plan:   func(tier string) []core.Job { return shardJobs("parse", 16, false, 1500) },
		Run:    c01Run,
		Replay: c01Replayer,
	}
}
