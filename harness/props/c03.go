package props

import (
	"bytes"
	"encoding/hex"
	"errors"
	"fmt"
	"net"
	"net/netip"
	"sort"
	"strings"

	"harness/core"
	"harness/env"
	"harness/refnet"

	"github.com/irai/packet"
	"golang.org/x/net/dns/dnsmessage"
)

// C03: encoders and decoders are mutually inverse at every layer.

type c03Replay struct {
	Kind string `json:"kind"`
	Args []int  `json:"args"`
	Hex  string `json:"hex,omitempty"`
}

var c03MACs = [][]byte{{0, 0, 0, 0, 0, 0}, {0xff, 0xff, 0xff, 0xff, 0xff, 0xff}, {0x02, 0, 0, 0, 0, 0x01}, {0x02, 0xaa, 0xbb, 0xcc, 0xdd, 0xee}}
var c03IP4 = []netip.Addr{netip.MustParseAddr("0.0.0.0"), netip.MustParseAddr("10.0.0.1"), netip.MustParseAddr("192.168.0.255"), netip.MustParseAddr("255.255.255.255")}
var c03IP6 = []netip.Addr{netip.MustParseAddr("::"), netip.MustParseAddr("fe80::1"), netip.MustParseAddr("ff02::1"), netip.MustParseAddr("2001:db8::1")}
var c03U16 = []uint16{0, 1, 255, 256, 65535}

func c03PayloadLens(thorough bool) []int {
	var l []int
	for i := 0; i <= 64; i++ {
		l = append(l, i)
	}
	l = append(l, 1471, 1472, 1473, 1480, 1481, 1500, 1501, 1508)
	if thorough {
		for i := 65; i <= 300; i++ {
			l = append(l, i)
		}
	}
	return l
}

// guarded returns a slice of length 0 and capacity capN carved out of a larger array with guard bytes around it.
func guarded(capN int) (whole []byte, buf []byte) {
	whole = make([]byte, capN+32)
	for i := range whole {
		whole[i] = 0xee
	}
	return whole, whole[16 : 16 : 16+capN]
}

func guardsIntact(whole []byte, capN int) bool {
	for i := 0; i < 16; i++ {
		if whole[i] != 0xee || whole[16+capN+i] != 0xee {
			return false
		}
	}
	return true
}

type c03ctx struct {
	c *core.Ctx
}

func (x *c03ctx) fail(sig, what string, rp c03Replay) { x.c.Violate(sig, what, rp) }

// try runs f and converts a panic into a violation.
func (x *c03ctx) try(sig string, rp c03Replay, f func()) {
	defer func() {
		if e := recover(); e != nil {
			x.fail("encode-panic|"+sig, fmt.Sprintf("%s panics: %v (args %v)", sig, e, rp.Args), rp)
		}
	}()
	x.c.Count("evaluations", 1)
	f()
}

func (x *c03ctx) ip4(ttl byte, src, dst netip.Addr, proto byte, n int, capN int, appendMode bool, si, di int) {
	rp := c03Replay{Kind: "ip4", Args: []int{int(ttl), si, di, int(proto), n, capN, b2i(appendMode)}}
	x.try("IP4", rp, func() {
		payload := pat(n, 3)
		whole, buf := guarded(capN)
		p := packet.EncodeIP4(buf[:capN], ttl, src, dst)
		var out packet.IP4
		if appendMode {
			var err error
			out, err = p.AppendPayload(payload, proto)
			fits := capN-20 >= n
			if !fits {
				if !errors.Is(err, packet.ErrPayloadTooBig) {
					x.fail("append-toobig|IP4", fmt.Sprintf("IP4.AppendPayload(%d bytes) into capacity %d returned %v, want ErrPayloadTooBig", n, capN, err), rp)
				}
				if !guardsIntact(whole, capN) {
					x.fail("append-overrun|IP4", "IP4.AppendPayload wrote outside the buffer", rp)
				}
				return
			}
			if err != nil {
				x.fail("append-spurious|IP4", fmt.Sprintf("IP4.AppendPayload(%d bytes) into capacity %d failed: %v", n, capN, err), rp)
				return
			}
		} else {
			if capN-20 < n {
				return // SetPayload requires the caller to have placed the payload already
			}
			copy(buf[20:capN], payload)
			out = p.SetPayload(payload, proto)
		}
		if !guardsIntact(whole, capN) {
			x.fail("encode-overrun|IP4", "IP4 encoder wrote outside the buffer", rp)
		}
		x.c.Distinct(out)
		// reference decode
		b := []byte(out)
		ok := len(b) == 20+n && b[0] == 0x45 && int(b[2])<<8|int(b[3]) == 20+n && b[8] == ttl && b[9] == proto &&
			netip.AddrFrom4([4]byte(b[12:16])) == as4(src) && netip.AddrFrom4([4]byte(b[16:20])) == as4(dst) &&
			refnet.VerifiesIP4Header(b[:20]) && bytes.Equal(b[20:], payload)
		if !ok {
			x.fail("roundtrip|IP4", fmt.Sprintf("IPv4 packet does not decode to the supplied values: ttl=%d proto=%d n=%d src=%v dst=%v append=%v got=%x", ttl, proto, n, src, dst, appendMode, trunc(b, 40)), rp)
			return
		}
		// library decode
		if out.IsValid() != nil || out.TTL() != int(ttl) || out.Protocol() != proto || out.Src() != as4(src) || out.Dst() != as4(dst) || out.TotalLen() != 20+n || !bytes.Equal(out.Payload(), payload) {
			x.fail("roundtrip-lib|IP4", "library getters disagree with the encoded values", rp)
		}
	})
}

func as4(a netip.Addr) netip.Addr {
	if a.Is4() {
		return a
	}
	return netip.MustParseAddr("0.0.0.0")
}

func b2i(b bool) int {
	if b {
		return 1
	}
	return 0
}

func (x *c03ctx) ip6(hop byte, src, dst netip.Addr, next byte, n int, capN int, appendMode bool, si, di int) {
	rp := c03Replay{Kind: "ip6", Args: []int{int(hop), si, di, int(next), n, capN, b2i(appendMode)}}
	x.try("IP6", rp, func() {
		payload := pat(n, 5)
		whole, buf := guarded(capN)
		p := packet.EncodeIP6(buf[:capN], hop, src, dst)
		var out packet.IP6
		if appendMode {
			var err error
			out, err = p.AppendPayload(payload, next)
			if capN-40 < n {
				if !errors.Is(err, packet.ErrPayloadTooBig) {
					x.fail("append-toobig|IP6", fmt.Sprintf("IP6.AppendPayload(%d bytes) into capacity %d returned %v, want ErrPayloadTooBig", n, capN, err), rp)
				}
				if !guardsIntact(whole, capN) {
					x.fail("append-overrun|IP6", "IP6.AppendPayload wrote outside the buffer", rp)
				}
				return
			}
			if err != nil {
				x.fail("append-spurious|IP6", fmt.Sprintf("IP6.AppendPayload(%d bytes) into capacity %d failed: %v", n, capN, err), rp)
				return
			}
		} else {
			if capN-40 < n {
				return
			}
			copy(buf[40:capN], payload)
			out = p.SetPayload(payload, next)
		}
		if !guardsIntact(whole, capN) {
			x.fail("encode-overrun|IP6", "IP6 encoder wrote outside the buffer", rp)
		}
		x.c.Distinct(out)
		b := []byte(out)
		ok := len(b) == 40+n && b[0]>>4 == 6 && int(b[4])<<8|int(b[5]) == n && b[6] == next && b[7] == hop &&
			netip.AddrFrom16([16]byte(b[8:24])) == src && netip.AddrFrom16([16]byte(b[24:40])) == dst && bytes.Equal(b[40:], payload)
		if !ok {
			x.fail("roundtrip|IP6", fmt.Sprintf("IPv6 packet does not decode to the supplied values: hop=%d next=%d n=%d append=%v got=%x", hop, next, n, appendMode, trunc(b, 48)), rp)
			return
		}
		if out.IsValid() != nil || out.HopLimit() != hop || out.NextHeader() != next || out.Src() != src || out.Dst() != dst || int(out.PayloadLen()) != n || !bytes.Equal(out.Payload(), payload) {
			x.fail("roundtrip-lib|IP6", "library getters disagree with the encoded values", rp)
		}
	})
}

func (x *c03ctx) udp(sp, dp uint16, n int, capN int, appendMode bool) {
	rp := c03Replay{Kind: "udp", Args: []int{int(sp), int(dp), n, capN, b2i(appendMode)}}
	x.try("UDP", rp, func() {
		payload := pat(n, 7)
		whole, buf := guarded(capN)
		p := packet.EncodeUDP(buf, sp, dp)
		if p == nil {
			if capN >= 8 {
				x.fail("encode-nil|UDP", "EncodeUDP returned nil although the header fits", rp)
			}
			return
		}
		var out packet.UDP
		if appendMode {
			var err error
			out, err = p.AppendPayload(payload)
			if capN-8 < n {
				if !errors.Is(err, packet.ErrPayloadTooBig) {
					x.fail("append-toobig|UDP", fmt.Sprintf("UDP.AppendPayload(%d bytes) into capacity %d returned %v, want ErrPayloadTooBig", n, capN, err), rp)
				}
				if !guardsIntact(whole, capN) {
					x.fail("append-overrun|UDP", "UDP.AppendPayload wrote outside the buffer", rp)
				}
				return
			}
			if err != nil {
				x.fail("append-spurious|UDP", fmt.Sprintf("UDP.AppendPayload failed: %v", err), rp)
				return
			}
		} else {
			if capN-8 < n {
				return
			}
			copy(buf[8:capN], payload)
			out = p.SetPayload(payload)
		}
		if !guardsIntact(whole, capN) {
			x.fail("encode-overrun|UDP", "UDP encoder wrote outside the buffer", rp)
		}
		x.c.Distinct(out)
		b := []byte(out)
		ok := len(b) == 8+n && uint16(b[0])<<8|uint16(b[1]) == sp && uint16(b[2])<<8|uint16(b[3]) == dp && int(b[4])<<8|int(b[5]) == 8+n && bytes.Equal(b[8:], payload)
		if !ok {
			x.fail("roundtrip|UDP", fmt.Sprintf("UDP datagram does not decode to the supplied values sp=%d dp=%d n=%d append=%v got=%x", sp, dp, n, appendMode, trunc(b, 24)), rp)
			return
		}
		if out.IsValid() != nil || out.SrcPort() != sp || out.DstPort() != dp || int(out.Len()) != 8+n || !bytes.Equal(out.Payload(), payload) {
			x.fail("roundtrip-lib|UDP", "library getters disagree with the encoded values", rp)
		}
	})
}

func (x *c03ctx) ether(et uint16, si, di int, n int, capN int, appendMode bool) {
	rp := c03Replay{Kind: "ether", Args: []int{int(et), si, di, n, capN, b2i(appendMode)}}
	x.try("Ether", rp, func() {
		payload := pat(n, 9)
		if appendMode && si == 3 {
			// the payload is a sub-slice of a larger receive buffer (spare capacity behind it)
			big := make([]byte, 4096)
			copy(big, payload)
			payload = big[:n]
		}
		whole, buf := guarded(capN)
		e := packet.EncodeEther(buf, et, c03MACs[si], c03MACs[di])
		var out packet.Ether
		var err error
		if appendMode {
			out, err = e.AppendPayload(payload)
			if 14+n > capN {
				if !errors.Is(err, packet.ErrPayloadTooBig) {
					x.fail("append-toobig|Ether", fmt.Sprintf("Ether.AppendPayload(%d) cap %d returned %v", n, capN, err), rp)
				}
				return
			}
		} else {
			if 14+n > capN {
				return
			}
			copy(buf[14:capN], payload)
			out, err = e.SetPayload(payload)
		}
		if err != nil {
			x.fail("encode-error|Ether", fmt.Sprintf("Ether payload of %d bytes into capacity %d failed: %v", n, capN, err), rp)
			return
		}
		if !guardsIntact(whole, capN) {
			x.fail("encode-overrun|Ether", "Ether encoder wrote outside the buffer", rp)
		}
		x.c.Distinct(out)
		b := []byte(out)
		wantLen := 14 + n
		if appendMode && wantLen < 60 {
			wantLen = 60 // AppendPayload pads to the Ethernet minimum with zeros
		}
		ok := len(b) == wantLen && bytes.Equal(b[0:6], c03MACs[di]) && bytes.Equal(b[6:12], c03MACs[si]) && uint16(b[12])<<8|uint16(b[13]) == et && bytes.Equal(b[14:14+n], payload)
		for i := 14 + n; ok && i < len(b); i++ {
			ok = b[i] == 0
		}
		if !ok {
			x.fail("roundtrip|Ether", fmt.Sprintf("Ethernet frame does not decode to the supplied values et=%#x n=%d append=%v got=%x", et, n, appendMode, trunc(b, 40)), rp)
			return
		}
		if out.IsValid() != nil || out.EtherType() != et || !bytes.Equal(out.Src(), c03MACs[si]) || !bytes.Equal(out.Dst(), c03MACs[di]) {
			x.fail("roundtrip-lib|Ether", "library getters disagree with the encoded values", rp)
		}
	})
}

func (x *c03ctx) arp(op uint16, si, di, ipi, ipj int) {
	rp := c03Replay{Kind: "arp", Args: []int{int(op), si, di, ipi, ipj}}
	x.try("ARP", rp, func() {
		_, buf := guarded(28)
		src := packet.Addr{MAC: net.HardwareAddr(c03MACs[si]), IP: c03IP4[ipi]}
		dst := packet.Addr{MAC: net.HardwareAddr(c03MACs[di]), IP: c03IP4[ipj]}
		a := packet.EncodeARP(buf, op, src, dst)
		want := refnet.ARP(op, c03MACs[si], c03IP4[ipi], c03MACs[di], c03IP4[ipj])
		x.c.Distinct(a)
		if !bytes.Equal(a, want) {
			x.fail("roundtrip|ARP", fmt.Sprintf("EncodeARP=%x want %x", []byte(a), want), rp)
			return
		}
		if a.IsValid() != nil || a.Operation() != op || a.SrcIP() != c03IP4[ipi] || a.DstIP() != c03IP4[ipj] || !bytes.Equal(a.SrcMAC(), c03MACs[si]) || !bytes.Equal(a.DstMAC(), c03MACs[di]) {
			x.fail("roundtrip-lib|ARP", "library getters disagree with the encoded values", rp)
		}
	})
}

func (x *c03ctx) echo(t, code byte, id, seq uint16, n int, capN int) {
	rp := c03Replay{Kind: "echo", Args: []int{int(t), int(code), int(id), int(seq), n, capN}}
	x.try("ICMPEcho", rp, func() {
		data := pat(n, 11)
		whole, buf := guarded(capN)
		e := packet.EncodeICMPEcho(buf, t, code, id, seq, data)
		if 8+n > capN {
			if e != nil {
				x.fail("encode-toobig|ICMPEcho", "EncodeICMPEcho accepted data that does not fit", rp)
			}
			return
		}
		if !guardsIntact(whole, capN) {
			x.fail("encode-overrun|ICMPEcho", "EncodeICMPEcho wrote outside the buffer", rp)
		}
		x.c.Distinct(e)
		b := []byte(e)
		ok := len(b) == 8+n && b[0] == t && b[1] == code && uint16(b[4])<<8|uint16(b[5]) == id && uint16(b[6])<<8|uint16(b[7]) == seq && bytes.Equal(b[8:], data)
		if !ok {
			x.fail("roundtrip|ICMPEcho", fmt.Sprintf("echo does not decode to the supplied values: got=%x", trunc(b, 24)), rp)
			return
		}
		if e.IsValid() != nil || e.EchoID() != id || e.EchoSeq() != seq || e.Type() != t || e.Code() != code || !bytes.Equal(e.EchoData(), data) {
			x.fail("roundtrip-lib|ICMPEcho", "library getters disagree", rp)
		}
	})
}

// DHCP option alphabet
var c03OptCodes = []byte{1, 3, 6, 12, 15, 33, 50, 51, 54, 55, 61, 121}

func c03OptValue(code byte, variant int) []byte {
	lens := []int{0, 1, 4, 255}
	n := lens[variant]
	v := make([]byte, n)
	for i := range v {
		v[i] = code + byte(i)
	}
	return v
}

// refDHCPOptions parses the options area; returns ordered (code,value) list, end found, ok.
func refDHCPOptions(b []byte) (list [][2][]byte, end bool, ok bool) {
	i := 0
	for i < len(b) {
		switch b[i] {
		case 0:
			i++
			continue
		case 255:
			return list, true, true
		}
		if i+1 >= len(b) {
			return list, false, false
		}
		l := int(b[i+1])
		if i+2+l > len(b) {
			return list, false, false
		}
		list = append(list, [2][]byte{{b[i]}, b[i+2 : i+2+l]})
		i += 2 + l
	}
	return list, false, true
}

func (x *c03ctx) dhcp(optIdx []int, variants []int, order []byte, mt byte, xidI int, bcastFlag bool, capMode int) {
	args := append([]int{len(optIdx)}, optIdx...)
	args = append(args, variants...)
	args = append(args, len(order))
	for _, o := range order {
		args = append(args, int(o))
	}
	args = append(args, int(mt), xidI, b2i(bcastFlag), capMode)
	rp := c03Replay{Kind: "dhcp", Args: args}
	x.try("DHCP4", rp, func() {
		xids := [][]byte{{0, 0, 0, 0}, {0, 0, 0, 1}, {0xde, 0xad, 0xbe, 0xef}, {0xff, 0xff, 0xff, 0xff}}
		options := packet.DHCP4Options{}
		supplied := map[byte][]byte{}
		total := 3 // message type
		for k, oi := range optIdx {
			v := c03OptValue(c03OptCodes[oi], variants[k])
			options[packet.DHCP4OptionCode(c03OptCodes[oi])] = v
			supplied[c03OptCodes[oi]] = v
			total += 2 + len(v)
		}
		supplied[53] = []byte{mt}
		need := 240 + total + 1
		if need < 300 {
			need = 300
		}
		capN := need
		if capMode == 1 {
			capN = packet.EthMaxSize
		}
		whole, buf := guarded(capN)
		chaddr := net.HardwareAddr(c03MACs[3])
		ci, yi := c03IP4[1], c03IP4[2]
		p := packet.EncodeDHCP4(buf, packet.DHCP4BootReply, packet.DHCP4MessageType(mt), chaddr, ci, yi, xids[xidI], bcastFlag, options, append([]byte(nil), order...))
		if p == nil {
			x.fail("encode-nil|DHCP4", fmt.Sprintf("EncodeDHCP4 returned nil for capacity %d", capN), rp)
			return
		}
		if !guardsIntact(whole, capN) {
			x.fail("encode-overrun|DHCP4", "EncodeDHCP4 wrote outside the buffer", rp)
		}
		x.c.Distinct(p)
		b := []byte(p)
		if len(b) < 300 {
			x.fail("roundtrip|DHCP4-minlen", fmt.Sprintf("DHCP message is %d bytes, want >= 300", len(b)), rp)
			return
		}
		hdr := b[0] == 2 && b[1] == 1 && b[2] == 6 && bytes.Equal(b[4:8], xids[xidI]) && bytes.Equal(b[12:16], ci.AsSlice()) && bytes.Equal(b[16:20], yi.AsSlice()) &&
			bytes.Equal(b[28:34], chaddr) && bytes.Equal(b[236:240], []byte{99, 130, 83, 99}) && (b[10]&0x80 != 0) == bcastFlag
		if !hdr {
			x.fail("roundtrip|DHCP4-header", fmt.Sprintf("DHCP header does not decode to the supplied values: %x", b[:44]), rp)
			return
		}
		list, end, ok := refDHCPOptions(b[240:])
		if !ok || !end {
			x.fail("roundtrip|DHCP4-options-malformed", fmt.Sprintf("option area malformed (end=%v): %x", end, trunc(b[240:], 64)), rp)
			return
		}
		got := map[byte][]byte{}
		pos := map[byte]int{}
		for i, kv := range list {
			if _, dup := got[kv[0][0]]; dup {
				x.fail("roundtrip|DHCP4-duplicate-option", fmt.Sprintf("option %d encoded twice", kv[0][0]), rp)
				return
			}
			got[kv[0][0]] = kv[1]
			pos[kv[0][0]] = i
		}
		if len(got) != len(supplied) {
			x.fail("roundtrip|DHCP4-option-set", fmt.Sprintf("decoded option codes %v, supplied %v", keys(got), keys(supplied)), rp)
			return
		}
		for k, v := range supplied {
			if g, ok := got[k]; !ok || !bytes.Equal(g, v) {
				x.fail("roundtrip|DHCP4-option-value", fmt.Sprintf("option %d decodes to %x, supplied %x", k, g, trunc(v, 16)), rp)
				return
			}
		}
		if _, m := got[1]; m {
			if _, r := got[3]; r && pos[1] > pos[3] {
				x.fail("roundtrip|DHCP4-mask-after-router", "subnet mask option encoded after the router option", rp)
			}
		}
		// requested parameter order is honoured for the codes that are present
		last := -1
		seen := map[byte]bool{}
		for _, code := range order {
			if seen[code] {
				continue
			}
			seen[code] = true
			if pi, ok := pos[code]; ok {
				if code == 1 && seen[3] {
					continue // the subnet mask is moved in front of the router option (RFC 2132 3.3)
				}
				if pi < last {
					x.fail("roundtrip|DHCP4-order", fmt.Sprintf("requested order %v not honoured: %v", order, list), rp)
					break
				}
				last = pi
			}
		}
		// library decode
		lo := p.ParseOptions()
		if p.IsValid() != nil || len(lo) != len(supplied) {
			x.fail("roundtrip-lib|DHCP4", fmt.Sprintf("library IsValid/ParseOptions disagree: valid=%v n=%d", p.IsValid(), len(lo)), rp)
		}
	})
}

func keys(m map[byte][]byte) []int {
	var k []int
	for x := range m {
		k = append(k, int(x))
	}
	sort.Ints(k)
	return k
}

// dnsLabelsOfLen returns labels whose encoding (length bytes, labels, root) is exactly n bytes long (n >= 3).
func dnsLabelsOfLen(n int) []string {
	var labels []string
	rest := n - 1
	for rest > 64 {
		l := 63
		if rest-64 == 1 { // do not leave room for an empty label
			l = 62
		}
		labels = append(labels, string(bytes.Repeat([]byte{'b'}, l)))
		rest -= l + 1
	}
	return append(labels, string(bytes.Repeat([]byte{'c'}, rest-1)))
}

func (x *c03ctx) dnsQuery(id, flags uint16, labels []string, qtype uint16) {
	ll0 := 0
	if len(labels) > 0 {
		ll0 = len(labels[0])
	}
	x.dnsQueryRP(id, flags, labels, qtype, c03Replay{Kind: "dns", Args: []int{int(id), int(flags), len(labels), int(qtype), ll0}})
}

func (x *c03ctx) dnsQueryRP(id, flags uint16, labels []string, qtype uint16, rp c03Replay) {
	x.try("DNSQuery", rp, func() {
		name := ""
		for i, l := range labels {
			if i > 0 {
				name += "."
			}
			name += l
		}
		enc := refnet.DNSName(name)
		q := packet.EncodeDNSQuery(id, flags, enc, qtype)
		x.c.Distinct(q)
		want := append(refnet.DNSHeader(id, flags, 1, 0, 0, 0), refnet.DNSQuestion(enc, qtype, 1)...)
		if !bytes.Equal(q, want) {
			x.fail("roundtrip|DNSQuery", fmt.Sprintf("EncodeDNSQuery=%x want %x", trunc(q, 48), trunc(want, 48)), rp)
			return
		}
		var p dnsmessage.Parser
		h, err := p.Start(q)
		if err != nil {
			x.fail("roundtrip|DNSQuery-parse", fmt.Sprintf("independent parser rejects the query: %v", err), rp)
			return
		}
		qs, err := p.AllQuestions()
		if err != nil || len(qs) != 1 || h.ID != id || uint16(qs[0].Type) != qtype || qs[0].Name.String() != name+"." {
			x.fail("roundtrip|DNSQuery-values", fmt.Sprintf("independent parser reads id=%d questions=%v err=%v, supplied id=%d name=%s type=%d", h.ID, qs, err, id, name, qtype), rp)
		}
		d := packet.DNS(q)
		if d.IsValid() != nil || d.TransactionID() != id || d.QDCount() != 1 {
			x.fail("roundtrip-lib|DNSQuery", "library getters disagree", rp)
		}
		question, _, derr := packet.DecodeQuestion(d, 12, make([]byte, 0, 256))
		got := strings.TrimSuffix(string(question.Name), ".")
		if derr != nil || got != name || question.Type != qtype || question.Class != 1 {
			x.fail("roundtrip-lib|DNSQuery-question", fmt.Sprintf("DecodeQuestion of the encoded query gives name=%q type=%d class=%d err=%v, supplied name=%q type=%d", trunc(question.Name, 40), question.Type, question.Class, derr, trunc([]byte(name), 40), qtype), rp)
		}
	})
}

func (x *c03ctx) ndp(flags int, ti int, mi int) {
	rp := c03Replay{Kind: "ndp", Args: []int{flags, ti, mi}}
	x.try("NDP", rp, func() {
		target := c03IP6[ti]
		mac := net.HardwareAddr(c03MACs[mi])
		r, s, o := flags&4 != 0, flags&2 != 0, flags&1 != 0
		na := packet.ICMP6NeighborAdvertisementMarshal(r, s, o, packet.Addr{MAC: mac, IP: target})
		var f byte
		if r {
			f |= 0x80
		}
		if s {
			f |= 0x40
		}
		if o {
			f |= 0x20
		}
		wantNA := append([]byte{136, 0, 0, 0}, refnet.NA(f, target, refnet.NDPOption(2, mac))...)
		x.c.Distinct(na)
		if !bytes.Equal(na, wantNA) {
			x.fail("roundtrip|NA", fmt.Sprintf("neighbour advertisement=%x want %x", na, wantNA), rp)
		} else {
			v := packet.ICMP6NeighborAdvertisement(na)
			if v.IsValid() != nil || v.Router() != r || v.Solicited() != s || v.Override() != o || v.TargetAddress() != target || !bytes.Equal(v.TargetLLA(), mac) {
				x.fail("roundtrip-lib|NA", "library getters disagree", rp)
			}
		}
		if flags == 0 {
			ns, err := packet.ICMP6NeighborSolicitationMarshal(target, mac)
			wantNS := append([]byte{135, 0, 0, 0}, refnet.NS(target, refnet.NDPOption(1, mac))...)
			x.c.Distinct(ns)
			if err != nil || !bytes.Equal(ns, wantNS) {
				x.fail("roundtrip|NS", fmt.Sprintf("neighbour solicitation=%x want %x (source link-layer address option is type 1) err=%v", ns, wantNS, err), rp)
			} else {
				v := packet.ICMP6NeighborSolicitation(ns)
				if v.IsValid() != nil || v.TargetAddress() != target || !bytes.Equal(v.SourceLLA(), mac) {
					x.fail("roundtrip-lib|NS", "library getters disagree", rp)
				}
			}
		}
	})
}

// composed: Ether/IP/UDP built with the library encoders is classified by Parse as the encoded protocol.
func (x *c03ctx) composed(st *c01State, v6 bool, sp, dp uint16, n int) {
	rp := c03Replay{Kind: "composed", Args: []int{b2i(v6), int(sp), int(dp), n}}
	x.try("composed", rp, func() {
		buf := make([]byte, packet.EthMaxSize)
		payload := pat(n, 13)
		var frame packet.Ether
		var err error
		if !v6 {
			ether := packet.EncodeEther(buf, 0x0800, env.MAC1, env.MAC2)
			ip4 := packet.EncodeIP4(ether.Payload(), 50, ip4a, ip4b)
			udp := packet.EncodeUDP(ip4.Payload(), sp, dp)
			if udp, err = udp.AppendPayload(payload); err != nil {
				x.fail("composed-error|udp4", err.Error(), rp)
				return
			}
			ip4 = ip4.SetPayload(udp, 17)
			frame, _ = ether.SetPayload(ip4)
		} else {
			ether := packet.EncodeEther(buf, 0x86dd, env.MAC1, env.MAC2)
			ip6 := packet.EncodeIP6(ether.Payload(), 64, lla1, lla2)
			udp := packet.EncodeUDP(ip6.Payload(), sp, dp)
			if udp, err = udp.AppendPayload(payload); err != nil {
				x.fail("composed-error|udp6", err.Error(), rp)
				return
			}
			ip6 = ip6.SetPayload(udp, 17)
			frame, _ = ether.SetPayload(ip6)
		}
		x.c.Distinct(frame)
		want := refnet.Classify(frame)
		f, err := st.session().Parse(frame)
		if err != nil || want.Err == refnet.Yes {
			x.fail("composed-rejected|udp", fmt.Sprintf("composed frame rejected: parse err=%v reference err=%v frame=%x", err, want.Err, trunc(frame, 64)), rp)
			return
		}
		if int(f.PayloadID) != refnet.ClassifyUDP(sp, dp) || f.SrcAddr.Port != sp || f.DstAddr.Port != dp || want.SrcPort != sp || want.DstPort != dp {
			x.fail("composed-class|udp", fmt.Sprintf("composed UDP %d->%d classified %v by Parse, reference says %d", sp, dp, f.PayloadID, refnet.ClassifyUDP(sp, dp)), rp)
			return
		}
		if int(f.PayloadID) != refnet.PUDP && !bytes.Equal(f.Payload(), payload) {
			x.fail("composed-payload|udp", "payload of the composed frame differs from the supplied payload", rp)
		}
		// length fields mutually consistent
		if !v6 {
			ip := []byte(frame)[14:]
			if int(ip[2])<<8|int(ip[3]) != len(ip) || int(ip[24])<<8|int(ip[25]) != len(ip)-20 || !refnet.VerifiesIP4Header(ip[:20]) {
				x.fail("composed-lengths|udp4", fmt.Sprintf("length fields inconsistent: frame=%d ip.totallen=%d udp.len=%d", len(frame), int(ip[2])<<8|int(ip[3]), int(ip[24])<<8|int(ip[25])), rp)
			}
		} else {
			ip := []byte(frame)[14:]
			if int(ip[4])<<8|int(ip[5]) != len(ip)-40 || int(ip[44])<<8|int(ip[45]) != len(ip)-40 {
				x.fail("composed-lengths|udp6", "length fields inconsistent", rp)
			}
		}
	})
}

func c03Run(c *core.Ctx, args []string) {
	c.Res.Level = "exploration"
	c.Res.Rule = "(DNS queries additionally for every encoded name length 3..255) cartesian products of boundary alphabets: 4 MACs, 4 IPv4, 4 IPv6 addresses, {0,1,255,256,65535} for ports/ids/seq, ttl {0,1,64,255}, xid 4 values, every payload length 0..64 and the MTU boundary set (thorough: 0..300), buffer capacity {minimum-1, minimum, minimum+payload-1, minimum+payload, EthMaxSize} carved from a guarded array, Set and Append variants; ARP op x address pairs; all 8 NA flag combinations; DNS names of 0..4 labels of length 1 and 63 (decoded by an independent parser and by the library); every DHCP option map of <=2 (thorough <=3) options from 12 codes x value lengths {0,1,4,255} x every parameter-request order of <=2 (thorough <=3) codes; composed Ether/IP/UDP frames over all ordered port pairs. distinct non-trivial = distinct encoded byte strings"
	c.Res.Assumptions = []string{"decoding is done by refnet (independent) and by the library's own views", "DHCP buffers are sized so that the encoding fits (the property quantifies over option maps whose encoding fits)"}
	x := &c03ctx{c}
	st := &c01State{}
	unit := 0
	next := func() bool { unit++; return c.Mine(unit - 1) }
	lens := c03PayloadLens(c.Thorough())
	caps := func(min, n int) []int { return []int{min - 1, min, min + n - 1, min + n, packet.EthMaxSize} }
	// IPv4 / IPv6 / UDP / Ether / echo over payload lengths
	for _, n := range lens {
		if !next() {
			continue
		}
		for si, src := range c03IP4 {
			for di, dst := range c03IP4 {
				for _, ttl := range []byte{0, 1, 64, 255} {
					for _, proto := range []byte{1, 17} {
						for _, capN := range caps(20, n) {
							if capN < 20 {
								continue
							}
							x.ip4(ttl, src, dst, proto, n, capN, true, si, di)
							x.ip4(ttl, src, dst, proto, n, capN, false, si, di)
						}
					}
				}
			}
		}
		for si, src := range c03IP6 {
			for di, dst := range c03IP6 {
				for _, hop := range []byte{0, 1, 64, 255} {
					for _, capN := range caps(40, n) {
						if capN < 40 {
							continue
						}
						x.ip6(hop, src, dst, 58, n, capN, true, si, di)
						x.ip6(hop, src, dst, 17, n, capN, false, si, di)
					}
				}
			}
		}
		for _, sp := range c03U16 {
			for _, dp := range c03U16 {
				for _, capN := range caps(8, n) {
					x.udp(sp, dp, n, capN, true)
					x.udp(sp, dp, n, capN, false)
				}
			}
		}
		for si := range c03MACs {
			for di := range c03MACs {
				for _, et := range []uint16{0x0800, 0x86dd, 0x0806, 0x88cc} {
					for _, capN := range []int{14 + n, 60, packet.EthMaxSize} {
						if capN < 60 || capN < 14 {
							continue
						}
						x.ether(et, si, di, n, capN, true)
						x.ether(et, si, di, n, capN, false)
					}
				}
			}
		}
		for _, id := range c03U16 {
			for _, seq := range c03U16 {
				for _, capN := range caps(8, n) {
					if capN < 8 {
						continue
					}
					x.echo(8, 0, id, seq, n, capN)
					x.echo(128, 0, id, seq, n, capN)
				}
			}
		}
	}
	// ARP
	if next() {
		for _, op := range []uint16{1, 2} {
			for si := range c03MACs {
				for di := range c03MACs {
					for i := range c03IP4 {
						for j := range c03IP4 {
							x.arp(op, si, di, i, j)
						}
					}
				}
			}
		}
		for flags := 0; flags < 8; flags++ {
			for ti := range c03IP6 {
				for mi := range c03MACs {
					x.ndp(flags, ti, mi)
				}
			}
		}
		lab := func(n int) string { return string(bytes.Repeat([]byte{'a'}, n)) }
		for _, id := range c03U16 {
			for _, flags := range []uint16{0, 0x0100, 0x8000} {
				for _, qt := range []uint16{1, 12, 28, 33, 255, 0x20, 0x21} {
					for nl := 0; nl <= 4; nl++ { // 0 labels: the root name
						for _, ll := range []int{1, 63} {
							if nl*(ll+1) > 254 || (nl == 0 && ll != 1) {
								continue
							}
							labels := make([]string, nl)
							for i := range labels {
								labels[i] = lab(ll)
							}
							x.dnsQuery(id, flags, labels, qt)
						}
					}
				}
			}
		}
		// every encoded name length up to the 255 octet limit
		for n := 3; n <= 255; n++ {
			x.dnsQueryRP(0x1234, 0x0100, dnsLabelsOfLen(n), 1, c03Replay{Kind: "dnslen", Args: []int{n}})
			x.dnsQueryRP(0xffff, 0, dnsLabelsOfLen(n), 0x21, c03Replay{Kind: "dnslen", Args: []int{n, 1}})
		}
	}
	// composed frames
	for _, sp := range portAlphabet {
		if !next() {
			continue
		}
		for _, dp := range portAlphabet {
			for _, n := range []int{0, 1, 18, 300, 1400} {
				x.composed(st, false, sp, dp, n)
				x.composed(st, true, sp, dp, n)
			}
		}
	}
	// DHCP
	maxOpts, maxOrder := 2, 2
	if c.Thorough() {
		maxOpts, maxOrder = 3, 3
	}
	var orders [][]byte
	var genOrder func(cur []byte)
	orderCodes := []byte{1, 3, 6, 121, 33}
	genOrder = func(cur []byte) {
		orders = append(orders, append([]byte(nil), cur...))
		if len(cur) == maxOrder {
			return
		}
		for _, o := range orderCodes {
			genOrder(append(cur, o))
		}
	}
	genOrder(nil)
	var rec func(start int, idx []int)
	rec = func(start int, idx []int) {
		if len(idx) > 0 || start == 0 {
			if next() {
				nvar := 1
				for range idx {
					nvar *= 4
				}
				for vi := 0; vi < nvar; vi++ {
					variants := make([]int, len(idx))
					t := vi
					for k := range variants {
						variants[k] = t % 4
						t /= 4
					}
					for oi, order := range orders {
						x.dhcp(idx, variants, order, byte(2+oi%5), oi%4, oi%2 == 0, oi%2)
					}
				}
			}
		}
		if len(idx) == maxOpts {
			return
		}
		for i := start; i < len(c03OptCodes); i++ {
			rec(i+1, append(append([]int(nil), idx...), i))
		}
	}
	rec(0, nil)
	c.Sample(map[string]any{"encoder": "IP4.AppendPayload", "ttl": 255, "src": "192.168.0.255", "payload_len": 1481, "capacity": 1500}, 8)
	c.Sample(map[string]any{"encoder": "EncodeDHCP4", "options": []int{1, 3}, "value_lens": []int{4, 255}, "order": []int{3, 1}}, 8)
	st.reset()
	_ = hex.EncodeToString
}

func init() {
	Registry["C03"] = &Driver{
		Plan: func(tier string) []core.Job { return shardJobs("codec", 16, false, 1500) },
		Run:  c03Run,
		Replay: func(data []byte) string {
			var r c03Replay
			if jsonUnmarshal(data, &r) != nil {
				return ""
			}
			c := core.NewCtx("C03", "quick", "replay", 0, 1, "")
			x := &c03ctx{c}
			a := r.Args
			switch r.Kind {
			case "ip4":
				x.ip4(byte(a[0]), c03IP4[a[1]], c03IP4[a[2]], byte(a[3]), a[4], a[5], a[6] == 1, a[1], a[2])
			case "ip6":
				x.ip6(byte(a[0]), c03IP6[a[1]], c03IP6[a[2]], byte(a[3]), a[4], a[5], a[6] == 1, a[1], a[2])
			case "udp":
				x.udp(uint16(a[0]), uint16(a[1]), a[2], a[3], a[4] == 1)
			case "ether":
				x.ether(uint16(a[0]), a[1], a[2], a[3], a[4], a[5] == 1)
			case "arp":
				x.arp(uint16(a[0]), a[1], a[2], a[3], a[4])
			case "echo":
				x.echo(byte(a[0]), byte(a[1]), uint16(a[2]), uint16(a[3]), a[4], a[5])
			case "ndp":
				x.ndp(a[0], a[1], a[2])
			case "composed":
				x.composed(&c01State{}, a[0] == 1, uint16(a[1]), uint16(a[2]), a[3])
			case "dns":
				labels := make([]string, a[2])
				for i := range labels {
					labels[i] = string(bytes.Repeat([]byte{'a'}, a[4]))
				}
				x.dnsQuery(uint16(a[0]), uint16(a[1]), labels, uint16(a[3]))
			case "dnslen":
				if len(a) > 1 {
					x.dnsQueryRP(0xffff, 0, dnsLabelsOfLen(a[0]), 0x21, r)
				} else {
					x.dnsQueryRP(0x1234, 0x0100, dnsLabelsOfLen(a[0]), 1, r)
				}
			case "dhcp":
				n := a[0]
				idx := a[1 : 1+n]
				variants := a[1+n : 1+2*n]
				no := a[1+2*n]
				order := make([]byte, no)
				for i := range order {
					order[i] = byte(a[2+2*n+i])
				}
				rest := a[2+2*n+no:]
				x.dhcp(idx, variants, order, byte(rest[0]), rest[1], rest[2] == 1, rest[3])
			}
			if len(c.Res.Violations) > 0 {
				return c.Res.Violations[0].Sig + ": " + c.Res.Violations[0].What
			}
			return ""
		},
	}
}
