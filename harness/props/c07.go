package props

import (
	"bufio"
	"bytes"
	"fmt"
	"net"
	"net/http"
	"net/netip"
	"strings"
	"time"

	"harness/core"
	"harness/env"
	"harness/refnet"

	"github.com/irai/packet"
	arp "github.com/irai/packet/handlers/arp_spoofer"
	dhcp4 "github.com/irai/packet/handlers/dhcp4_spoofer"
	dns "github.com/irai/packet/handlers/dns_naming"
	icmp "github.com/irai/packet/handlers/icmp_spoofer"
	"github.com/irai/packet/verifshim/vfuel"
	"github.com/irai/packet/verifshim/vsched"
	"golang.org/x/net/dns/dnsmessage"
)

// C07: every transmitted frame is well-formed and sourced from the host NIC MAC.

type c07Replay struct {
	Kind string `json:"kind"`
	NIC  int    `json:"nic"`
	Call string `json:"call"`
	Args []int  `json:"args"`
}

type c07NIC struct {
	name string
	nic  func() *packet.NICInfo
}

func c07NICs() []c07NIC {
	return []c07NIC{
		{"lan24", func() *packet.NICInfo { return env.DefaultNIC() }},
		{"lan16", func() *packet.NICInfo { return env.NIC("10.1.0.0/16", "10.1.2.3", "10.1.0.1", true) }},
		{"nolla", func() *packet.NICInfo { return env.NIC("192.168.0.0/24", "192.168.0.129", "192.168.0.1", false) }},
	}
}

var (
	c07MACs = [][]byte{env.MAC1, {0xff, 0xff, 0xff, 0xff, 0xff, 0xff}, {0, 0, 0, 0, 0, 0}, {0x33, 0x33, 0, 0, 0, 1}}
	c07IP4  = []netip.Addr{netip.MustParseAddr("192.168.0.10"), netip.MustParseAddr("0.0.0.0"), netip.MustParseAddr("255.255.255.255"), netip.MustParseAddr("8.8.8.8")}
	c07IP6  = []netip.Addr{netip.MustParseAddr("fe80::10"), netip.MustParseAddr("2001:db8::10"), netip.MustParseAddr("ff02::1"), netip.MustParseAddr("ff02::1:ff00:10")}
	c07U16  = []uint16{0, 1, 255, 256, 65535}
)

// c07Call performs one send call on fresh objects and returns the frames it emitted plus the expectation checker.
type c07Case struct {
	call   string
	args   []int
	invoke func(x *c07Objs) error
	expect func(x *c07Objs, frames []refnet.SentInfo, raw [][]byte) string
}

type c07Objs struct {
	s   *packet.Session
	con *env.Conn
	a   *arp.Handler
	h6  *icmp.Handler6
	d   *dhcp4.Handler
	n   *dns.DNSHandler
	nic *packet.NICInfo
}

func one(frames []refnet.SentInfo, kind string) (refnet.SentInfo, string) {
	if len(frames) != 1 {
		return refnet.SentInfo{}, fmt.Sprintf("%d frames emitted, want exactly one", len(frames))
	}
	if frames[0].Kind != kind {
		return frames[0], fmt.Sprintf("frame decodes as %q, want %q", frames[0].Kind, kind)
	}
	return frames[0], ""
}

func c07Cases() []c07Case {
	var cases []c07Case
	add := func(call string, args []int, invoke func(x *c07Objs) error, expect func(x *c07Objs, f []refnet.SentInfo, raw [][]byte) string) {
		cases = append(cases, c07Case{call, args, invoke, expect})
	}
	eq := func(what string, got, want any) string {
		if fmt.Sprint(got) != fmt.Sprint(want) {
			return fmt.Sprintf("%s=%v, requested %v", what, got, want)
		}
		return ""
	}
	first := func(msgs ...string) string {
		for _, m := range msgs {
			if m != "" {
				return m
			}
		}
		return ""
	}
	// the caller supplies a consistent (MAC, IP) destination: an IPv6 multicast address goes with its 33:33 MAC
	dst6 := func(mi, ii int) packet.Addr {
		ip := c07IP6[ii]
		if ip.IsMulticast() {
			a := ip.As16()
			return packet.Addr{MAC: net.HardwareAddr{0x33, 0x33, a[12], a[13], a[14], a[15]}, IP: ip}
		}
		return packet.Addr{MAC: c07MACs[mi], IP: ip}
	}
	// ---- a source address whose MAC is not the interface's: the ethernet source must still be the host MAC
	foreign := net.HardwareAddr{0x02, 0x00, 0x00, 0x00, 0x09, 0x09}
	add("ICMP4SendEchoRequest(foreign source MAC)", nil, func(x *c07Objs) error {
		return x.s.ICMP4SendEchoRequest(packet.Addr{MAC: foreign, IP: x.nic.RouterAddr4.IP}, packet.Addr{MAC: env.MAC1, IP: c07IP4[0]}, 7, 1)
	}, func(x *c07Objs, f []refnet.SentInfo, raw [][]byte) string {
		i, e := one(f, "icmp4-echo")
		if e != "" {
			return e
		}
		return first(eq("src", i.SrcIP, x.nic.RouterAddr4.IP), eq("ethernet source", net.HardwareAddr(i.SrcMAC[:]), net.HardwareAddr(x.nic.HostAddr4.MAC)))
	})
	add("ICMP6SendEchoRequest(foreign source MAC)", nil, func(x *c07Objs) error {
		return x.s.ICMP6SendEchoRequest(packet.Addr{MAC: foreign, IP: env.HostLLA}, packet.Addr{MAC: env.MAC1, IP: c07IP6[0]}, 7, 1)
	}, func(x *c07Objs, f []refnet.SentInfo, raw [][]byte) string {
		i, e := one(f, "icmp6-echo")
		if e != "" {
			return e
		}
		return first(eq("src", i.SrcIP, env.HostLLA), eq("ethernet source", net.HardwareAddr(i.SrcMAC[:]), net.HardwareAddr(x.nic.HostAddr4.MAC)))
	})
	add("ICMP6SendNeighborAdvertisement(foreign source MAC)", nil, func(x *c07Objs) error {
		return x.s.ICMP6SendNeighborAdvertisement(packet.Addr{MAC: foreign, IP: env.RouterLLA}, packet.Addr{MAC: env.MAC1, IP: c07IP6[0]}, packet.Addr{MAC: env.HostMAC, IP: env.RouterLLA})
	}, func(x *c07Objs, f []refnet.SentInfo, raw [][]byte) string {
		i, e := one(f, "na")
		if e != "" {
			return e
		}
		return first(eq("src", i.SrcIP, env.RouterLLA), eq("ethernet source", net.HardwareAddr(i.SrcMAC[:]), net.HardwareAddr(x.nic.HostAddr4.MAC)))
	})
	add("dns.SendNBNSQuery(foreign source MAC)", nil, func(x *c07Objs) error {
		return x.n.SendNBNSQuery(packet.Addr{MAC: foreign, IP: x.nic.HostAddr4.IP}, packet.Addr{MAC: env.MAC1, IP: c07IP4[0]}, "name")
	}, func(x *c07Objs, f []refnet.SentInfo, raw [][]byte) string {
		if len(f) != 1 {
			return fmt.Sprintf("%d frames emitted, want exactly one", len(f))
		}
		return eq("ethernet source", net.HardwareAddr(f[0].SrcMAC[:]), net.HardwareAddr(x.nic.HostAddr4.MAC))
	})
	add("dns.SendSleepProxyResponse(foreign source MAC)", nil, func(x *c07Objs) error {
		return x.n.SendSleepProxyResponse(packet.Addr{MAC: foreign, IP: x.nic.HostAddr4.IP}, packet.Addr{MAC: env.McastMAC, IP: netip.MustParseAddr("224.0.0.251"), Port: 5353}, 9, "x")
	}, func(x *c07Objs, f []refnet.SentInfo, raw [][]byte) string {
		if len(f) != 1 {
			return fmt.Sprintf("%d frames emitted, want exactly one", len(f))
		}
		return eq("ethernet source", net.HardwareAddr(f[0].SrcMAC[:]), net.HardwareAddr(x.nic.HostAddr4.MAC))
	})
	// ---- ICMP echo
	for mi := range c07MACs {
		for ii := range c07IP4 {
			for _, id := range c07U16 {
				for _, seq := range []uint16{0, 1, 65535} {
					mi, ii, id, seq := mi, ii, id, seq
					add("ICMP4SendEchoRequest", []int{mi, ii, int(id), int(seq)}, func(x *c07Objs) error {
						return x.s.ICMP4SendEchoRequest(x.nic.HostAddr4, packet.Addr{MAC: c07MACs[mi], IP: c07IP4[ii]}, id, seq)
					}, func(x *c07Objs, f []refnet.SentInfo, raw [][]byte) string {
						i, e := one(f, "icmp4-echo")
						if e != "" {
							return e
						}
						return first(eq("type", i.ICMPType, 8), eq("id", i.EchoID, id), eq("seq", i.EchoSeq, seq), eq("src", i.SrcIP, x.nic.HostAddr4.IP), eq("dst", i.DstIP, c07IP4[ii]), eq("dst mac", net.HardwareAddr(i.DstMAC[:]), net.HardwareAddr(c07MACs[mi])))
					})
				}
			}
		}
		for ii := range c07IP6 {
			for _, id := range c07U16 {
				mi, ii, id := mi, ii, id
				add("ICMP6SendEchoRequest", []int{mi, ii, int(id)}, func(x *c07Objs) error {
					return x.s.ICMP6SendEchoRequest(packet.Addr{MAC: env.HostMAC, IP: env.HostLLA}, dst6(mi, ii), id, 7)
				}, func(x *c07Objs, f []refnet.SentInfo, raw [][]byte) string {
					i, e := one(f, "icmp6-echo")
					if e != "" {
						return e
					}
					return first(eq("type", i.ICMPType, 128), eq("id", i.EchoID, id), eq("seq", i.EchoSeq, 7), eq("src", i.SrcIP, env.HostLLA), eq("dst", i.DstIP, c07IP6[ii]))
				})
			}
			mi, ii := mi, ii
			add("ICMP6SendNeighbourSolicitation", []int{mi, ii}, func(x *c07Objs) error {
				return x.s.ICMP6SendNeighbourSolicitation(packet.Addr{MAC: env.HostMAC, IP: env.HostLLA}, dst6(mi, ii), c07IP6[0])
			}, func(x *c07Objs, f []refnet.SentInfo, raw [][]byte) string {
				i, e := one(f, "ns")
				if e != "" {
					return e
				}
				return first(eq("target", i.Target, c07IP6[0]), eq("source link-layer option", net.HardwareAddr(i.OptSLLA), net.HardwareAddr(env.HostMAC)), eq("dst", i.DstIP, c07IP6[ii]))
			})
			// neighbour discovery from a source address that is not link-local (a global address, the unspecified address
			// of duplicate address detection): the hop limit rule follows the destination
			for si, src6 := range []netip.Addr{netip.MustParseAddr("2001:db8::99"), netip.IPv6Unspecified()} {
				si, src6 := si, src6
				add("ICMP6SendNeighbourSolicitation(other source)", []int{mi, ii, si}, func(x *c07Objs) error {
					return x.s.ICMP6SendNeighbourSolicitation(packet.Addr{MAC: env.HostMAC, IP: src6}, dst6(mi, ii), c07IP6[0])
				}, func(x *c07Objs, f []refnet.SentInfo, raw [][]byte) string {
					i, e := one(f, "ns")
					if e != "" {
						return e
					}
					return first(eq("target", i.Target, c07IP6[0]), eq("src", i.SrcIP, src6), eq("dst", i.DstIP, c07IP6[ii]))
				})
				add("ICMP6SendNeighborAdvertisement(other source)", []int{mi, ii, si}, func(x *c07Objs) error {
					return x.s.ICMP6SendNeighborAdvertisement(packet.Addr{MAC: env.HostMAC, IP: src6}, dst6(mi, ii), packet.Addr{MAC: env.HostMAC, IP: env.RouterLLA})
				}, func(x *c07Objs, f []refnet.SentInfo, raw [][]byte) string {
					i, e := one(f, "na")
					if e != "" {
						return e
					}
					return first(eq("target", i.Target, env.RouterLLA), eq("src", i.SrcIP, src6), eq("dst", i.DstIP, c07IP6[ii]))
				})
			}
			add("ICMP6SendNeighborAdvertisement", []int{mi, ii}, func(x *c07Objs) error {
				return x.s.ICMP6SendNeighborAdvertisement(packet.Addr{MAC: env.HostMAC, IP: env.HostLLA}, dst6(mi, ii), packet.Addr{MAC: env.HostMAC, IP: env.RouterLLA})
			}, func(x *c07Objs, f []refnet.SentInfo, raw [][]byte) string {
				i, e := one(f, "na")
				if e != "" {
					return e
				}
				return first(eq("target", i.Target, env.RouterLLA), eq("target link-layer option", net.HardwareAddr(i.OptTLLA), net.HardwareAddr(env.HostMAC)), eq("override", i.NAFlags&0x20 != 0, true))
			})
		}
	}
	add("ICMP6SendRouterSolicitation", nil, func(x *c07Objs) error { return x.s.ICMP6SendRouterSolicitation() }, func(x *c07Objs, f []refnet.SentInfo, raw [][]byte) string {
		i, e := one(f, "rs")
		if e != "" {
			return e
		}
		return first(eq("destination (all routers)", i.DstIP, "ff02::2"), eq("source link-layer option", net.HardwareAddr(i.OptSLLA), net.HardwareAddr(env.HostMAC)))
	})
	raPrefixes := []packet.PrefixInformation{{PrefixLength: 64, Prefix: net.ParseIP("2001:db8:1::")}, {PrefixLength: 56, Prefix: net.ParseIP("2001:db8:2:300::")}, {PrefixLength: 48, Prefix: net.ParseIP("fd00:1:2::")}}
	for np := 1; np <= 3; np++ {
		for rd := 0; rd < 2; rd++ {
			np, rd := np, rd
			add("ICMP6SendRouterAdvertisement", []int{np, rd}, func(x *c07Objs) error {
				var rdnss *packet.RecursiveDNSServer
				if rd == 1 {
					rdnss = icmp.RDNSSCLoudflare
				}
				return x.s.ICMP6SendRouterAdvertisement(raPrefixes[:np], rdnss, packet.IP6AllNodesAddr)
			}, func(x *c07Objs, f []refnet.SentInfo, raw [][]byte) string {
				i, e := one(f, "ra")
				if e != "" {
					return e
				}
				var wantP, wantR []string
				for _, p := range raPrefixes[:np] {
					a, _ := netip.AddrFromSlice(p.Prefix)
					wantP = append(wantP, fmt.Sprintf("%s/%d", a, p.PrefixLength))
				}
				if rd == 1 {
					wantR = []string{packet.DNSv6Cloudflare1.String(), packet.DNSv6Cloudflare2.String()}
				}
				return first(eq("destination (all nodes)", i.DstIP, "ff02::1"), eq("source link-layer option", net.HardwareAddr(i.OptSLLA), net.HardwareAddr(env.HostMAC)),
					eq("prefix information options", fmt.Sprint(i.RAPrefixes), fmt.Sprint(wantP)), eq("recursive DNS servers", fmt.Sprint(i.RARDNSS), fmt.Sprint(wantR)))
			})
		}
	}
	add("Handler6.PingAll", nil, func(x *c07Objs) error { return x.h6.PingAll() }, func(x *c07Objs, f []refnet.SentInfo, raw [][]byte) string {
		if !x.nic.HostLLA.IsValid() {
			if len(f) != 0 {
				return "frames sent without an IPv6 link-local address"
			}
			return ""
		}
		if len(f) != 2 {
			return fmt.Sprintf("%d frames emitted, want a router solicitation and an echo request", len(f))
		}
		if f[0].Kind != "rs" || f[1].Kind != "icmp6-echo" {
			return fmt.Sprintf("frames decode as %s,%s want rs,icmp6-echo", f[0].Kind, f[1].Kind)
		}
		return ""
	})
	// ---- ARP handler
	arpExpect := func(op uint16, sha func(x *c07Objs) []byte, spa func(x *c07Objs) netip.Addr, tha []byte, tpa netip.Addr, dst []byte) func(x *c07Objs, f []refnet.SentInfo, raw [][]byte) string {
		return func(x *c07Objs, f []refnet.SentInfo, raw [][]byte) string {
			i, e := one(f, "arp")
			if e != "" {
				return e
			}
			return first(eq("operation", i.ARPOp, op), eq("sender mac", net.HardwareAddr(i.ARPSha[:]), net.HardwareAddr(sha(x))), eq("sender ip", i.ARPSpa, spa(x)),
				eq("target mac", net.HardwareAddr(i.ARPTha[:]), net.HardwareAddr(tha)), eq("target ip", i.ARPTpa, tpa), eq("ethernet destination", net.HardwareAddr(i.DstMAC[:]), net.HardwareAddr(dst)))
		}
	}
	hostMAC := func(x *c07Objs) []byte { return x.nic.HostAddr4.MAC }
	hostIP := func(x *c07Objs) netip.Addr { return x.nic.HostAddr4.IP }
	for ii := range c07IP4 {
		ii := ii
		add("arp.Request", []int{ii}, func(x *c07Objs) error { return x.a.Request(c07IP4[ii]) }, arpExpect(1, hostMAC, hostIP, bcast, c07IP4[ii], bcast))
		add("arp.Probe", []int{ii}, func(x *c07Objs) error { return x.a.Probe(c07IP4[ii]) }, arpExpect(1, hostMAC, func(*c07Objs) netip.Addr { return ip4zero }, make([]byte, 6), c07IP4[ii], bcast))
		for mi := range c07MACs {
			mi := mi
			add("arp.RequestTo", []int{mi, ii}, func(x *c07Objs) error { return x.a.RequestTo(c07MACs[mi], c07IP4[ii]) }, arpExpect(1, hostMAC, hostIP, bcast, c07IP4[ii], c07MACs[mi]))
			add("arp.AnnounceTo", []int{mi, ii}, func(x *c07Objs) error { return x.a.AnnounceTo(c07MACs[mi], c07IP4[ii]) }, arpExpect(1, hostMAC, func(*c07Objs) netip.Addr { return c07IP4[ii] }, bcast, c07IP4[ii], c07MACs[mi]))
			for si := range c07MACs {
				si := si
				sender := packet.Addr{MAC: c07MACs[si], IP: c07IP4[(ii+1)%len(c07IP4)]}
				target := packet.Addr{MAC: c07MACs[mi], IP: c07IP4[ii]}
				add("arp.Reply", []int{mi, ii, si}, func(x *c07Objs) error { return x.a.Reply(c07MACs[mi], sender, target) },
					arpExpect(2, func(*c07Objs) []byte { return sender.MAC }, func(*c07Objs) netip.Addr { return sender.IP }, target.MAC, target.IP, c07MACs[mi]))
				add("arp.RequestRaw", []int{mi, ii, si}, func(x *c07Objs) error { return x.a.RequestRaw(c07MACs[mi], sender, target) },
					arpExpect(1, func(*c07Objs) []byte { return sender.MAC }, func(*c07Objs) netip.Addr { return sender.IP }, target.MAC, target.IP, c07MACs[mi]))
			}
		}
	}
	// ---- DHCP client side
	for _, name := range []string{"", "host-x"} {
		for xi, xid := range [][]byte{{0, 0, 0, 1}, {0xde, 0xad, 0xbe, 0xef}} {
			name, xid, xi := name, xid, xi
			add("dhcp4.SendDiscoverPacket", []int{len(name), xi}, func(x *c07Objs) error { return x.d.SendDiscoverPacket(env.MAC2, ip4zero, xid, name) }, func(x *c07Objs, f []refnet.SentInfo, raw [][]byte) string {
				i, e := one(f, "dhcp4")
				if e != "" {
					return e
				}
				if i.DHCP == nil {
					return "not a DHCP message"
				}
				return first(eq("op", i.DHCP.Op, 1), eq("message type", i.DHCP.MsgType, 1), eq("xid", i.DHCP.XID, xid), eq("chaddr", net.HardwareAddr(i.DHCP.CHAddr), net.HardwareAddr(env.MAC2)), eq("host name", string(i.DHCP.Options[12]), name),
					eq("ports", fmt.Sprint(i.SrcPort, i.DstPort), "68 67"))
			})
		}
	}
	// ---- naming handler
	dnsQuestion := func(raw []byte) (string, uint16, string) {
		var p dnsmessage.Parser
		if _, err := p.Start(raw); err != nil {
			return "", 0, "not a DNS message: " + err.Error()
		}
		q, err := p.AllQuestions()
		if err != nil || len(q) != 1 {
			return "", 0, fmt.Sprintf("DNS questions: %v %v", q, err)
		}
		return q[0].Name.String(), uint16(q[0].Type), ""
	}
	for _, name := range []string{"host1.local.", "_services._dns-sd._udp.local.", strings.Repeat("a", 63) + ".local."} {
		name := name
		add("dns.SendMDNSQuery", []int{len(name)}, func(x *c07Objs) error { return x.n.SendMDNSQuery(name) }, func(x *c07Objs, f []refnet.SentInfo, raw [][]byte) string {
			i, e := one(f, "udp4")
			if e != "" {
				return e
			}
			qn, _, e2 := dnsQuestion(i.UDPBody)
			return first(e2, eq("question name", qn, name), eq("destination", fmt.Sprintf("%v:%d", i.DstIP, i.DstPort), "224.0.0.251:5353"), eq("source port", i.SrcPort, 5353), eq("source address", i.SrcIP, x.nic.HostAddr4.IP))
		})
		add("dns.SendLLMNRQuery", []int{len(name)}, func(x *c07Objs) error { return x.n.SendLLMNRQuery(name) }, func(x *c07Objs, f []refnet.SentInfo, raw [][]byte) string {
			i, e := one(f, "udp4")
			if e != "" {
				return e
			}
			qn, _, e2 := dnsQuestion(i.UDPBody)
			return first(e2, eq("question name", qn, name), eq("destination (RFC 4795)", fmt.Sprintf("%v:%d", i.DstIP, i.DstPort), "224.0.0.252:5355"))
		})
	}
	// (the last two names carry bytes >= 0x80: a name in an OEM code page, and the same name in UTF-8)
	for _, name := range []string{"WORKSTATION1", "*", "A-NAME-LONGER-THAN-16-CHARS", "CAF\xc9", "CAF\u00c9-PC"} {
		name := name
		add("dns.SendNBNSQuery", []int{len(name)}, func(x *c07Objs) error {
			return x.n.SendNBNSQuery(x.nic.HostAddr4, packet.Addr{MAC: env.MAC1, IP: c07IP4[0]}, name)
		}, func(x *c07Objs, f []refnet.SentInfo, raw [][]byte) string {
			i, e := one(f, "udp4")
			if e != "" {
				return e
			}
			b := i.UDPBody
			if len(b) < 12+34+4 {
				return fmt.Sprintf("NBNS query of %d bytes", len(b))
			}
			if b[12] != 0x20 || b[12+33] != 0 {
				return "NBNS name is not a 32 byte first-level encoded label"
			}
			var decb []byte
			for k := 0; k < 16; k++ {
				decb = append(decb, (b[13+2*k]-'A')<<4|(b[14+2*k]-'A'))
			}
			dec := string(decb)
			want := name
			if len(want) > 16 {
				want = want[:15]
			}
			return first(eq("ports", fmt.Sprint(i.SrcPort, i.DstPort), "137 137"), eq("questions", int(b[4])<<8|int(b[5]), 1), eq("encoded name", strings.TrimRight(dec, " "), want), eq("question type", int(b[12+34])<<8|int(b[12+35]), 0x20), eq("destination", i.DstIP, c07IP4[0]))
		})
	}
	add("dns.SendNBNSNodeStatus", nil, func(x *c07Objs) error { return x.n.SendNBNSNodeStatus() }, func(x *c07Objs, f []refnet.SentInfo, raw [][]byte) string {
		i, e := one(f, "udp4")
		if e != "" {
			return e
		}
		b := i.UDPBody
		if len(b) < 50 {
			return "short NBNS node status query"
		}
		return first(eq("question type", int(b[12+34])<<8|int(b[12+35]), 0x21), eq("destination", i.DstIP, "255.255.255.255"))
	})
	add("dns.SendSSDPSearch", nil, func(x *c07Objs) error { return x.n.SendSSDPSearch() }, func(x *c07Objs, f []refnet.SentInfo, raw [][]byte) string {
		i, e := one(f, "udp4")
		if e != "" {
			return e
		}
		req, err := http.ReadRequest(bufio.NewReader(bytes.NewReader(i.UDPBody)))
		if err != nil {
			return "the M-SEARCH datagram is not a well formed HTTP request: " + err.Error()
		}
		return first(eq("method", req.Method, "M-SEARCH"), eq("MAN header", req.Header.Get("MAN"), `"ssdp:discover"`), eq("destination", fmt.Sprintf("%v:%d", i.DstIP, i.DstPort), "239.255.255.250:1900"))
	})
	add("dns.SendSleepProxyResponse", nil, func(x *c07Objs) error {
		return x.n.SendSleepProxyResponse(x.nic.HostAddr4, packet.Addr{MAC: env.McastMAC, IP: netip.MustParseAddr("224.0.0.251"), Port: 5353}, 9, "x")
	}, func(x *c07Objs, f []refnet.SentInfo, raw [][]byte) string {
		i, e := one(f, "udp4")
		if e != "" {
			return e
		}
		var p dnsmessage.Parser
		h, err := p.Start(i.UDPBody)
		if err != nil || !h.Response || h.ID != 9 {
			return fmt.Sprintf("sleep proxy response header %+v err=%v", h, err)
		}
		return ""
	})
	return cases
}

// c07Exec runs one case on fresh objects under the sequential scheduler and returns the failure ("" if none).
func c07Exec(nic c07NIC, cs c07Case) (failure string) {
	ex := vsched.Run(vsched.Config{Mode: vsched.ModeSeq}, func() {
		defer func() {
			if e := recover(); e != nil {
				failure = fmt.Sprintf("panic: %v @%s", e, panicSite())
			}
		}()
		concReset()
		vfuel.Set(5_000_000)
		x := &c07Objs{nic: nic.nic()}
		x.s, x.con = env.NewSession(x.nic, packet.Config{})
		x.a, _ = arp.New(x.s)
		x.h6, _ = icmp.New6(x.s)
		x.d, _ = dhcp4.Config{Mode: dhcp4.ModeSecondaryServerNice, NetfilterIP: netip.PrefixFrom(x.nic.HostAddr4.IP, 25), DNSServer: x.nic.RouterAddr4.IP, LeaseFilename: ""}.New(x.s)
		x.n = dns.VerifNew(x.s)
		vsched.WaitIdle()
		x.con.Take()
		env.DirtyPool()
		err := cs.invoke(x)
		vsched.WaitIdle()
		var infos []refnet.SentInfo
		var raws [][]byte
		for _, f := range x.con.Take() {
			info := refnet.DecodeSent(f.Data, x.nic.HostAddr4.MAC)
			if len(info.Problems) > 0 {
				failure = fmt.Sprintf("emitted %s frame: %s frame=%x", info.Kind, info.Problems[0], trunc(f.Data, 72))
				return
			}
			infos = append(infos, info)
			raws = append(raws, f.Data)
		}
		if err != nil {
			if len(infos) > 0 {
				failure = fmt.Sprintf("the call failed (%v) but emitted %d frame(s)", err, len(infos))
			}
			return // refusing the arguments is acceptable
		}
		if msg := cs.expect(x, infos, raws); msg != "" {
			failure = msg
		}
	})
	if ex.Outcome != vsched.Complete && failure == "" {
		failure = fmt.Sprintf("execution ended with %s: %s", ex.Outcome, firstLine(ex.Panics))
	}
	return failure
}

func c07Run(c *core.Ctx, args []string) {
	c.Res.Level = "model_checking"
	c.Res.Rule = "(1) argument sweep: every exported send function of the session and the handlers (ICMPv4/ICMPv6 echo, NS, NA, RS, RA, PingAll, ARP request/probe/announce/reply/raw, DHCP discover, mDNS/LLMNR/NBNS/SSDP queries, sleep-proxy response) x boundary alphabets of its parameters x 3 NIC configurations (/24; /16 with other addresses; no IPv6 link-local); every emitted frame is decoded by the reference decoder (complete, length-consistent, checksums, hop limit, multicast MAC mapping, ethernet source = host MAC) and compared with the values requested. (2) universal monitor: the same frame decoder runs over every frame emitted along the session histories of C04 (probes sent by purge) and the DHCP histories of C11 (offers, acks, naks, forced declines, discover bursts). distinct = distinct (call, arguments, NIC) tuples + distinct states"
	c.Res.Assumptions = []string{"the reference decoder refnet/sent.go is the oracle for well-formedness", "a call that refuses its arguments with an error and sends nothing is acceptable"}
	switch c.Job {
	case "sweep":
		cases := c07Cases()
		idx := 0
		for ni, nic := range c07NICs() {
			for _, cs := range cases {
				idx++
				if !c.Mine(idx) {
					continue
				}
				c.Progress(fmt.Sprintf("%s %s %v", nic.name, cs.call, cs.args))
				c.Count("evaluations", 1)
				c.Count("sweep_calls", 1)
				c.Count("distinct_extra", 1)
				if f := c07Exec(nic, cs); f != "" {
					c.Violate("send|"+cs.call+"|"+firstWords(f, 3), fmt.Sprintf("%s%v on NIC %s: %s", cs.call, cs.args, nic.name, f), c07Replay{Kind: "sweep", NIC: ni, Call: cs.call, Args: cs.args})
				}
			}
		}
		c.Count("transitions", c.Res.Counters["sweep_calls"])
		c.Res.Counters["states"] = c.Res.Counters["sweep_calls"]
		c.Sample(map[string]any{"call": "arp.Reply", "args": "dst=ff:ff:ff:ff:ff:ff sender=(33:33:00:00:00:01, 0.0.0.0) target=(02:00:00:00:01:01, 192.168.0.10)", "nic": "lan16"}, 4)
	case "hunt":
		// frames emitted by the ICMPv6 spoof loops (link-local and address-less targets) in the default schedule
		for i, sc := range c14Scenarios(2) {
			if !c.Mine(i) {
				continue
			}
			ex, x := runSchedule(sc, nil)
			c.Count("evaluations", 1)
			c.Count("transitions", int64(len(ex.Points)))
			c.Count("states", 1)
			c.Count("distinct_extra", 1)
			if s, ok := x.data["session"].(*packet.Session); ok {
				for _, f := range s.Conn.(*env.Conn).Frames {
					info := refnet.DecodeSent(f.Data, env.HostMAC)
					c.Count("frames_monitored", 1)
					for _, p := range info.Problems {
						c.Violate("frame|sent-"+info.Kind+"-"+firstWords(p, 3), fmt.Sprintf("%s: emitted %s frame: %s frame=%x", sc.name, info.Kind, p, trunc(f.Data, 72)),
							concReplay{Kind: "schedule", Property: "C07", Scenario: sc.name, Prefix: nil, MaxClock: sc.maxClock})
					}
				}
			}
		}
	case "sess":
		sessExplore(c, "frame")
	case "dhcp":
		dhcpExplore(c, "frame")
	}
	_ = time.Second
}

func init() {
	Registry["C07"] = &Driver{
		Plan: func(tier string) []core.Job {
			jobs := shardJobs("sweep", 6, false, 1700)
			jobs = append(jobs, shardJobs("hunt", 2, false, 900)...)
			jobs = append(jobs, shardJobs("sess", 8, false, 1700)...)
			return append(jobs, shardJobs("dhcp", 6, false, 1700)...)
		},
		Run: c07Run,
		Replay: func(data []byte) string {
			var r c07Replay
			if jsonUnmarshal(data, &r) == nil && r.Kind == "sweep" {
				for _, cs := range c07Cases() {
					if cs.call == r.Call && fmt.Sprint(cs.args) == fmt.Sprint(r.Args) {
						return c07Exec(c07NICs()[r.NIC], cs)
					}
				}
				return ""
			}
			var k struct {
				Kind string `json:"kind"`
			}
			jsonUnmarshal(data, &k)
			if k.Kind == "dhcp" {
				return dhcpReplayer(data)
			}
			if k.Kind == "schedule" {
				var r concReplay
				jsonUnmarshal(data, &r)
				for _, sc := range c14Scenarios(2) {
					if sc.name == r.Scenario {
						_, x := runSchedule(sc, r.Prefix)
						if s, ok := x.data["session"].(*packet.Session); ok {
							for _, f := range s.Conn.(*env.Conn).Frames {
								if info := refnet.DecodeSent(f.Data, env.HostMAC); len(info.Problems) > 0 {
									return "frame|" + info.Problems[0]
								}
							}
						}
					}
				}
				return ""
			}
			return sessReplayer(data)
		},
	}
}
