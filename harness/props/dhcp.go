package props

import (
	"bytes"
	"encoding/hex"
	"fmt"
	"hash/fnv"
	"net"
	"net/netip"
	"os"
	"sort"
	"strings"
	"time"

	"harness/core"
	"harness/env"
	"harness/eseq"
	"harness/refnet"

	"github.com/irai/packet"
	dhcp4 "github.com/irai/packet/handlers/dhcp4_spoofer"
	"github.com/irai/packet/verifshim/vfs"
	"github.com/irai/packet/verifshim/vfuel"
	"github.com/irai/packet/verifshim/vsched"
)

// DHCP exploration shared by C11 (uniqueness / reserved addresses), C12 (segregation / transaction conformance)
// and C18 (restart, crash points, corruption).

var (
	dHome    = netip.MustParsePrefix("192.168.0.0/29")
	dHost    = netip.MustParseAddr("192.168.0.6")
	dRouter  = netip.MustParseAddr("192.168.0.1")
	dNetf    = netip.MustParsePrefix("192.168.0.6/30")
	dDNS     = netip.MustParseAddr("8.8.4.4")
	dFamDNS  = netip.MustParseAddr("1.1.1.3")
	dClients = [][]byte{env.MAC1, env.MAC2, env.MAC3, env.MAC1}       // c4 shares the hardware address of c1 but identifies itself with its own client identifier
	dCID3    = []byte{0x01, 0xc3, 0xc3, 0xc3, 0xc3, 0xc3, 0xc3, 0x33} // explicit client identifier of c3
	dCID4    = []byte{0x00, 0xc4, 0xc4, 0xc4, 0xc4, 0x44}             // explicit client identifier of c4
	dOther   = []byte{0x02, 0x00, 0x00, 0x00, 0x02, 0x04}
	dLease   = 4 * time.Hour
	dFile    = "leases.yaml"
)

// setLayout selects the address plan. 0: the netfilter subnet is the upper part of the home LAN (host .6, router .1,
// netfilter 192.168.0.4/30). 1: the netfilter subnet starts at the network address of the home LAN (host .2, router .5,
// netfilter 192.168.0.0/30), so that the two subnets share their network address.
func setLayout(i int) {
	dHome = netip.MustParsePrefix("192.168.0.0/29")
	switch i {
	case 3: // a home LAN wider than /24 (network and broadcast address are not in the last octet alone); explored shallowly
		dHome = netip.MustParsePrefix("192.168.0.0/22")
		dHost, dRouter, dNetf = netip.MustParseAddr("192.168.0.6"), netip.MustParseAddr("192.168.0.1"), netip.MustParsePrefix("192.168.0.6/30")
	case 2: // the default of dhcp4.New when no netfilter prefix is configured: same prefix length as the home LAN
		dHost, dRouter, dNetf = netip.MustParseAddr("192.168.0.6"), netip.MustParseAddr("192.168.0.1"), netip.MustParsePrefix("192.168.0.6/29")
	case 1:
		dHost, dRouter, dNetf = netip.MustParseAddr("192.168.0.2"), netip.MustParseAddr("192.168.0.5"), netip.MustParsePrefix("192.168.0.2/30")
	default:
		dHost, dRouter, dNetf = netip.MustParseAddr("192.168.0.6"), netip.MustParseAddr("192.168.0.1"), netip.MustParsePrefix("192.168.0.6/30")
	}
}

func dIP(last byte) netip.Addr { return netip.AddrFrom4([4]byte{192, 168, 0, last}) }

type dEvent struct {
	Kind string // discover request decline release capture uncapture tick seen
	K    int    // client
	Req  string // discover: none|free|other|bcast|net|offsub|host|router ; request: last|stale|arbitrary|otherserver|renew|reboot
	Dur  time.Duration
}

func (e dEvent) String() string {
	switch e.Kind {
	case "tick":
		return fmt.Sprintf("tick(%s)", e.Dur)
	case "sleep":
		return fmt.Sprintf("sleep(%s)", e.Dur)
	case "seen":
		return "frame(other-mac,192.168.0.3)"
	case "capture", "uncapture":
		return fmt.Sprintf("%s(c%d)", e.Kind, e.K+1)
	case "hunt":
		return fmt.Sprintf("StartHunt(c%d)", e.K+1)
	}
	return fmt.Sprintf("%s(c%d,%s)", e.Kind, e.K+1, e.Req)
}

func dhcpAlphabet() []dEvent {
	var a []dEvent
	for k := 0; k < 3; k++ {
		a = append(a, dEvent{Kind: "discover", K: k, Req: "none"})
	}
	a = append(a, dEvent{Kind: "discover", K: 0, Req: "free"}, dEvent{Kind: "discover", K: 1, Req: "free"}, dEvent{Kind: "discover", K: 1, Req: "other"},
		dEvent{Kind: "discover", K: 0, Req: "bcast"}, dEvent{Kind: "discover", K: 0, Req: "net"}, dEvent{Kind: "discover", K: 0, Req: "offsub"},
		dEvent{Kind: "discover", K: 0, Req: "host"}, dEvent{Kind: "discover", K: 0, Req: "router"},
		// a retransmitted DISCOVER: same xid as the client's open transaction
		dEvent{Kind: "discover", K: 0, Req: "retransmit"}, dEvent{Kind: "discover", K: 1, Req: "retransmit"})
	for k := 0; k < 3; k++ {
		a = append(a, dEvent{Kind: "request", K: k, Req: "last"})
	}
	a = append(a, dEvent{Kind: "request", K: 0, Req: "stale"}, dEvent{Kind: "request", K: 0, Req: "arbitrary"}, dEvent{Kind: "request", K: 1, Req: "other"},
		dEvent{Kind: "request", K: 0, Req: "otherserver"}, dEvent{Kind: "request", K: 0, Req: "renew"}, dEvent{Kind: "request", K: 1, Req: "renew"},
		dEvent{Kind: "request", K: 0, Req: "reboot"}, dEvent{Kind: "request", K: 1, Req: "reboot"},
		dEvent{Kind: "decline", K: 0}, dEvent{Kind: "decline", K: 1}, dEvent{Kind: "release", K: 0},
		dEvent{Kind: "capture", K: 0}, dEvent{Kind: "uncapture", K: 0},
		dEvent{Kind: "tick", Dur: dLease + time.Second}, dEvent{Kind: "tick", Dur: time.Minute},
		dEvent{Kind: "seen"},
		// two hours pass (longer than the session's purge deadline, shorter than the lease) and the minute ticker runs
		dEvent{Kind: "tick", Dur: 2 * time.Hour},
		// the lease time passes but the application has not called MinuteTicker yet (it does so once a minute)
		dEvent{Kind: "sleep", Dur: dLease + time.Second},
		// a REQUEST that names another server, carries the client's address in ciaddr and has no requested-address option
		dEvent{Kind: "request", K: 0, Req: "otherrenew"},
		// c4: the hardware address of c1 with another client identifier
		dEvent{Kind: "discover", K: 3, Req: "none"}, dEvent{Kind: "request", K: 3, Req: "last"}, dEvent{Kind: "request", K: 3, Req: "rebootother"},
		// INIT-REBOOT of c2 for the address acknowledged to another client (refused, but it touches the session's host entry)
		dEvent{Kind: "request", K: 1, Req: "rebootother"},
		// c2 selects again the last offer it ever received (old xid), e.g. after a NAK
		dEvent{Kind: "request", K: 1, Req: "replay"},
		// c4 (the hardware address of c1, another client identifier) declines the address acknowledged to another client
		dEvent{Kind: "decline", K: 3, Req: "other"}, dEvent{Kind: "request", K: 3, Req: "replay"},
		// the client selects a server whose identifier lies outside the home LAN (a relayed server)
		dEvent{Kind: "request", K: 0, Req: "otherserver-offlan"},
		// c1 asks for the address that is on offer (or acknowledged) to another client, e.g. c4 on the same hardware address
		dEvent{Kind: "discover", K: 0, Req: "other"},
		// the application starts hunting c1: the handler fakes a RELEASE of c1's lease towards the real server
		dEvent{Kind: "hunt", K: 0})
	return a
}

// ---- observer (built from the replies only) ----

type dAck struct {
	ip       netip.Addr
	expiry   int64
	captured bool // capture state of the client when the address was acknowledged
	moved    bool // the client's capture state differed from that at some point since (it was moved to the other subnet)
}

type dObserver struct {
	maybe        map[int]dAck       // client -> binding whose fate the statement does not decide (the client selected another server)
	lease        map[int]dAck       // client -> last acknowledged address still within its lease time (a NAK does not end the binding held by the server)
	acks         map[int]dAck       // client -> acknowledged address
	offer        map[int]netip.Addr // client -> address offered in the open transaction
	offerXID     map[int]uint32
	everOffer    map[int]netip.Addr // client -> the last address ever offered to it (kept across NAKs: a client may replay an old selection)
	everOfferXID map[int]uint32
	nextXID      uint32
	ackCap       map[int]bool // capture state of the client at its last acknowledgement
	movedSince   map[int]bool // the client's capture state differed from ackCap at some point since that acknowledgement
}

func newObserver() *dObserver {
	return &dObserver{maybe: map[int]dAck{}, lease: map[int]dAck{}, acks: map[int]dAck{}, offer: map[int]netip.Addr{}, offerXID: map[int]uint32{}, everOffer: map[int]netip.Addr{}, everOfferXID: map[int]uint32{}, nextXID: 0x1000, ackCap: map[int]bool{}, movedSince: map[int]bool{}}
}

func (o *dObserver) expire(now int64) {
	for k, a := range o.acks {
		if now > a.expiry { // a lease is valid up to and including its expiry instant (the server tests expiry.Before(now))
			delete(o.acks, k)
		}
	}
	for k, a := range o.lease {
		if now > a.expiry { // a lease is valid up to and including its expiry instant (the server tests expiry.Before(now))
			delete(o.lease, k)
		}
	}
}

func (o *dObserver) key() string {
	var parts []string
	for k := 0; k < len(dClients); k++ {
		if a, ok := o.acks[k]; ok {
			parts = append(parts, fmt.Sprintf("c%d=%v", k, a.ip))
		}
		if a, ok := o.lease[k]; ok {
			parts = append(parts, fmt.Sprintf("l%d=%v", k, a.ip))
		}
		if a, ok := o.maybe[k]; ok {
			parts = append(parts, fmt.Sprintf("m%d=%v", k, a.ip))
		}
		if a, ok := o.offer[k]; ok {
			parts = append(parts, fmt.Sprintf("o%d=%v/%x", k, a, o.offerXID[k]))
		}
	}
	return strings.Join(parts, ",")
}

// dID is the client identifier of client k: the option 61 value when it sends one, else its hardware address.
func dID(k int) []byte {
	switch k {
	case 2:
		return dCID3
	case 3:
		return dCID4
	}
	return dClients[k]
}

// clientOfReply attributes a reply to the client whose message is being answered when the hardware address matches
// (c1 and c4 share one), else to the first client with that hardware address.
func clientOfReply(chaddr []byte, reqK int) int {
	if reqK >= 0 && bytes.Equal(chaddr, dClients[reqK]) {
		return reqK
	}
	return clientOf(chaddr)
}

func clientOf(chaddr []byte) int {
	for i, m := range dClients {
		if bytes.Equal(m, chaddr) {
			return i
		}
	}
	return -1
}

type dhcpOpts struct {
	mode   dhcp4.Mode
	poison bool
	layout int
}

// ackImage: what a crash right after the transmission of an ACK would leave on the device.
type ackImage struct {
	k     int
	ip    netip.Addr
	files map[string][]byte
}

type dhcpStep struct {
	replies []string
	snap    string
	frames  uint64 // hash of every frame emitted during the step, in order (replies, forced declines, discover bursts)
}

type dhcpResult struct {
	steps      []dhcpStep
	key        string
	violations []string
	predicted  bool
	// for C18
	files     [][]byte   // content of the lease file after each step
	written   [][]byte   // every complete image the lease file went through (in order)
	ackImages []ackImage // the content of the device at the moment each ACK was transmitted
	ops       []vfs.Op   // every operation on the in-memory device, in order
	opsAt     []int      // len(ops) at the end of each step (opsAt[0]: after construction)
	leases    []dhcp4.VerifLease
	endTime   int64           // virtual time at the end of the history (a restart happens at that time)
	movedIDs  map[string]bool // client ids whose capture state changed since their address was acknowledged
	capEnd    []bool          // capture state of every client at the end of the history
	acked     []binding       // acknowledged bindings according to the observer (the truth for C18)
	maybe     []binding       // bindings that may or may not survive
}

func dhcpNIC() *packet.NICInfo {
	return env.NIC(dHome.String(), dHost.String(), dRouter.String(), true)
}

func dhcpConfig(mode dhcp4.Mode) dhcp4.Config {
	return dhcp4.Config{Mode: mode, NetfilterIP: dNetf, DNSServer: dDNS, LeaseFilename: dFile}
}

func dhcpFrame(k int, msgType byte, xid uint32, srcIP, dstIP netip.Addr, ciaddr netip.Addr, opts [][2][]byte) []byte {
	all := [][2][]byte{{{53}, {msgType}}}
	if k >= 2 {
		all = append(all, [2][]byte{{61}, dID(k)})
	}
	all = append(all, opts...)
	prl := [][]byte{{1, 3, 6, 15}, {6, 3}, {3, 1, 6}, {1, 3, 6, 15}}[k]
	all = append(all, [2][]byte{{55}, prl}, [2][]byte{{12}, []byte(fmt.Sprintf("host%d", k+1))})
	msg := refnet.DHCP4Msg{Op: 1, XID: xid, CHAddr: dClients[k], CIAddr: ciaddr, Options: all}.Bytes()
	dstMAC := bcast
	if dstIP == dHost {
		dstMAC = env.HostMAC
	}
	return refnet.Eth(dstMAC, dClients[k], 0x0800, refnet.IP4(srcIP, dstIP, 17, refnet.UDP(68, 67, msg), refnet.IP4Opt{}))
}

func leasesKey(l []dhcp4.VerifLease, now time.Time) string {
	var sb strings.Builder
	for _, v := range l {
		age := int64(-1)
		if !v.DHCPExpiry.IsZero() {
			age = int64(v.DHCPExpiry.Sub(now))
		}
		fmt.Fprintf(&sb, "L[%x mac=%x name=%q st=%d ip=%v offer=%v xid=%x net=%s exp=%d]", v.ClientID, []byte(v.MAC), v.Name, v.State, v.IP, v.IPOffer, v.XID, v.SubnetID, age)
	}
	return sb.String()
}

// runDHCP executes one history.
func runDHCP(alpha []dEvent, hist []int, o dhcpOpts) *dhcpResult {
	res := &dhcpResult{}
	setLayout(o.layout)
	viol := func(class, sig, what string) {
		if len(res.violations) < 4 {
			res.violations = append(res.violations, class+"|"+sig+"|"+what)
		}
	}
	ex := vsched.Run(vsched.Config{Mode: vsched.ModeSeq}, func() {
		concReset()
		vfuel.Set(20_000_000)
		s, conn := env.NewSession(dhcpNIC(), packet.Config{})
		h, err := dhcpConfig(o.mode).New(s)
		if err != nil {
			viol("setup", "new", err.Error())
			return
		}
		vsched.WaitIdle()
		conn.Take()
		res.opsAt = append(res.opsAt, len(vfs.Log()))
		curK := -1
		conn.OnWrite = func(b []byte) {
			if info := refnet.DecodeSent(b, env.HostMAC); info.Kind == "dhcp4" && info.DHCP != nil && info.DHCP.Op == 2 && info.SrcPort == 67 && info.DHCP.MsgType == 5 {
				if k := clientOfReply(info.DHCP.CHAddr, curK); k >= 0 && len(res.ackImages) < 8 {
					res.ackImages = append(res.ackImages, ackImage{k, info.DHCP.YIAddr, vfs.Files()})
				}
			}
		}
		obs := newObserver()
		shared := make([]byte, 2048)
		failed := false
		for si, ei := range hist {
			if failed {
				break
			}
			ev := alpha[ei]
			fail := func(class, sig, what string) {
				failed = true
				viol(class, sig, fmt.Sprintf("step %d %s: %s", si+1, ev, what))
			}
			var reqXID uint32
			var reqK = -1
			var huntIP netip.Addr // StartHunt: the leased address whose RELEASE is faked
			// which MAC the session tracks each address for, before the message is processed (an ACK re-binds the address)
			preTracked := map[netip.Addr]string{}
			for _, hst := range s.GetHosts() {
				preTracked[hst.Addr.IP] = string(hst.MACEntry.MAC)
			}
			preAcks := map[int]netip.Addr{}
			for k, a := range obs.acks {
				preAcks[k] = a.ip
			}
			for k, a := range obs.lease {
				preAcks[k] = a.ip
			}
			curK = ev.K
			func() {
				defer func() {
					if e := recover(); e != nil {
						fail("panic", "dhcp-panic@"+panicSite(), fmt.Sprint(e))
					}
				}()
				vfuel.Set(20_000_000)
				obs.expire(vsched.NowNanos())
				deliver := func(raw []byte) {
					// as in the packet loop: a receive buffer of EthMaxSize capacity holding len(raw) bytes (the DHCP
					// handler builds its reply in place)
					buf := make([]byte, len(raw), packet.EthMaxSize)
					copy(buf, raw)
					if o.poison {
						buf = shared[:len(raw)]
						copy(buf, raw)
					}
					frame, err := s.Parse(buf)
					if err != nil {
						fail("setup", "parse", err.Error())
						return
					}
					if frame.PayloadID == packet.PayloadDHCP4 {
						h.ProcessPacket(frame)
					}
					s.Notify(frame)
					if o.poison {
						for i := range shared {
							shared[i] = 0xa5
						}
					}
				}
				zero, bc := netip.IPv4Unspecified(), netip.MustParseAddr("255.255.255.255")
				switch ev.Kind {
				case "discover":
					obs.nextXID++
					reqXID, reqK = obs.nextXID, ev.K
					var opts [][2][]byte
					var req netip.Addr
					switch ev.Req {
					case "retransmit":
						if _, open := obs.offer[ev.K]; open {
							obs.nextXID--
							reqXID = obs.offerXID[ev.K]
						}
					case "free":
						req = dIP(3)
					case "other":
						// the address offered or acknowledged to another client
						for k := 0; k < len(dClients); k++ {
							if k != ev.K {
								if a, ok := obs.acks[k]; ok {
									req = a.ip
								} else if a, ok := obs.offer[k]; ok && !req.IsValid() {
									req = a
								}
							}
						}
						if !req.IsValid() {
							req = dIP(2)
						}
					case "bcast":
						req = lastAddr(dHome)
					case "net":
						req = dHome.Addr()
					case "offsub":
						req = netip.MustParseAddr("10.0.0.1")
					case "host":
						req = dHost
					case "router":
						req = dRouter
					}
					if req.IsValid() {
						opts = append(opts, [2][]byte{{50}, req.AsSlice()})
					}
					deliver(dhcpFrame(ev.K, 1, reqXID, zero, bc, netip.Addr{}, opts))
				case "request":
					obs.nextXID++
					reqXID, reqK = obs.nextXID, ev.K
					last, hasOffer := obs.offer[ev.K]
					if hasOffer {
						reqXID = obs.offerXID[ev.K]
					} else {
						last = dIP(2)
					}
					switch ev.Req {
					case "last":
						deliver(dhcpFrame(ev.K, 3, reqXID, zero, bc, netip.Addr{}, [][2][]byte{{{50}, last.AsSlice()}, {{54}, dHost.AsSlice()}}))
					case "replay": // the selection of the last offer this client ever received, whatever happened since
						if a, ok := obs.everOffer[ev.K]; ok {
							last, reqXID = a, obs.everOfferXID[ev.K]
						}
						deliver(dhcpFrame(ev.K, 3, reqXID, zero, bc, netip.Addr{}, [][2][]byte{{{50}, last.AsSlice()}, {{54}, dHost.AsSlice()}}))
					case "stale":
						reqXID = 0xdead
						deliver(dhcpFrame(ev.K, 3, reqXID, zero, bc, netip.Addr{}, [][2][]byte{{{50}, last.AsSlice()}, {{54}, dHost.AsSlice()}}))
					case "arbitrary":
						deliver(dhcpFrame(ev.K, 3, reqXID, zero, bc, netip.Addr{}, [][2][]byte{{{50}, dIP(3).AsSlice()}, {{54}, dHost.AsSlice()}}))
					case "other":
						req := dIP(3)
						for k := 0; k < len(dClients); k++ {
							if a, ok := obs.acks[k]; ok && k != ev.K {
								req = a.ip
							}
						}
						deliver(dhcpFrame(ev.K, 3, reqXID, zero, bc, netip.Addr{}, [][2][]byte{{{50}, req.AsSlice()}, {{54}, dHost.AsSlice()}}))
					case "otherserver-offlan":
						delete(obs.acks, ev.K)
						if l, ok := obs.lease[ev.K]; ok {
							obs.maybe[ev.K] = l
						}
						delete(obs.lease, ev.K)
						deliver(dhcpFrame(ev.K, 3, reqXID, zero, bc, netip.Addr{}, [][2][]byte{{{50}, last.AsSlice()}, {{54}, []byte{10, 9, 8, 7}}}))
					case "otherserver":
						// the client takes another server's offer: whatever it held from us is abandoned
						delete(obs.acks, ev.K)
						if l, ok := obs.lease[ev.K]; ok {
							obs.maybe[ev.K] = l
						}
						delete(obs.lease, ev.K)
						deliver(dhcpFrame(ev.K, 3, reqXID, zero, bc, netip.Addr{}, [][2][]byte{{{50}, last.AsSlice()}, {{54}, dRouter.AsSlice()}}))
					case "renew":
						ip := dIP(2)
						if a, ok := obs.acks[ev.K]; ok {
							ip = a.ip
						}
						deliver(dhcpFrame(ev.K, 3, reqXID, ip, dHost, ip, nil))
					case "otherrenew":
						ip := dIP(2)
						if a, ok := obs.acks[ev.K]; ok {
							ip = a.ip
						}
						// (the message is not a valid selection of the other server - no requested address -, so the binding
						// the client holds with us is not considered abandoned; what matters is that it is never ACKed)
						deliver(dhcpFrame(ev.K, 3, reqXID, ip, dHost, ip, [][2][]byte{{{54}, dRouter.AsSlice()}}))
					case "rebootother": // INIT-REBOOT for the address that is acknowledged to another client identifier
						ip := dIP(2)
						for k := 0; k < len(dClients); k++ {
							if a, ok := obs.acks[k]; ok && k != ev.K {
								ip = a.ip
							}
						}
						deliver(dhcpFrame(ev.K, 3, reqXID, zero, bc, netip.Addr{}, [][2][]byte{{{50}, ip.AsSlice()}}))
					case "reboot":
						ip := dIP(3)
						if a, ok := obs.acks[ev.K]; ok {
							ip = a.ip
						}
						deliver(dhcpFrame(ev.K, 3, reqXID, zero, bc, netip.Addr{}, [][2][]byte{{{50}, ip.AsSlice()}}))
					}
				case "decline":
					ip := dIP(3)
					if a, ok := obs.acks[ev.K]; ok {
						ip = a.ip
					} else if a, ok := obs.lease[ev.K]; ok {
						ip = a.ip
					}
					if ev.Req == "other" { // the address acknowledged to ANOTHER client identifier
						for k := 0; k < len(dClients); k++ {
							if a, ok := obs.acks[k]; ok && k != ev.K {
								ip = a.ip
							}
						}
					}
					deliver(dhcpFrame(ev.K, 4, 0x77, zero, bc, netip.Addr{}, [][2][]byte{{{50}, ip.AsSlice()}, {{54}, dHost.AsSlice()}}))
					// the client gave the address up
					if a, ok := obs.acks[ev.K]; ok && a.ip == ip {
						delete(obs.acks, ev.K)
					}
					if a, ok := obs.lease[ev.K]; ok && a.ip == ip {
						delete(obs.lease, ev.K)
					}
				case "release":
					if a, ok := obs.acks[ev.K]; ok {
						deliver(dhcpFrame(ev.K, 7, 0x78, a.ip, dHost, a.ip, [][2][]byte{{{54}, dHost.AsSlice()}}))
						delete(obs.acks, ev.K)
					} else {
						deliver(dhcpFrame(ev.K, 7, 0x78, dIP(3), dHost, dIP(3), [][2][]byte{{{54}, dHost.AsSlice()}}))
					}
				case "hunt":
					ip := dIP(3)
					if a, ok := obs.acks[ev.K]; ok {
						ip = a.ip
					}
					// the handler looks the lease up by address: the RELEASE is sent for whoever holds it
					for k := 0; k < len(dClients); k++ {
						if a, ok := obs.acks[k]; ok && a.ip == ip {
							reqK, huntIP = k, ip
						}
					}
					h.StartHunt(packet.Addr{MAC: dClients[ev.K], IP: ip})
				case "capture":
					s.Capture(dClients[ev.K])
				case "uncapture":
					s.Release(dClients[ev.K])
				case "tick":
					vsched.Advance(int64(ev.Dur))
					h.MinuteTicker(time.Unix(0, vsched.NowNanos()))
					obs.expire(vsched.NowNanos())
				case "sleep":
					vsched.Advance(int64(ev.Dur))
					obs.expire(vsched.NowNanos())
				case "seen":
					deliver(refnet.Eth(env.HostMAC, dOther, 0x0800, refnet.IP4(dIP(3), dHost, 17, refnet.UDP(40000, 40001, []byte("x")), refnet.IP4Opt{})))
				}
				vsched.WaitIdle()
			}()
			if failed {
				break
			}
			// a client whose capture state differs from the one it was acknowledged in has been moved to the other subnet
			// (it stays "moved" even if it is moved back: the server may have dropped the binding in between)
			for k, a := range obs.acks {
				if !a.moved && s.IsCaptured(dClients[k]) != a.captured {
					a.moved = true
					obs.acks[k] = a
				}
			}
			for k, c := range obs.ackCap {
				if s.IsCaptured(dClients[k]) != c {
					obs.movedSince[k] = true
				}
			}
			// ---- observe the replies of this step
			step := dhcpStep{}
			now := vsched.NowNanos()
			fh := fnv.New64a()
			for _, f := range conn.Take() {
				fh.Write(f.Data)
				fh.Write([]byte{0xff, 0x00})
				step.frames = fh.Sum64()
				info := refnet.DecodeSent(f.Data, env.HostMAC)
				for _, p := range info.Problems {
					fail("frame", "sent-"+info.Kind+"-"+firstWords(p, 3), fmt.Sprintf("emitted %s frame: %s", info.Kind, p))
				}
				// C07: a DECLINE/RELEASE forced towards the real server carries the fields of the client it is sent for
				if info.Kind == "dhcp4" && info.DHCP != nil && info.DHCP.Op == 1 && info.DstPort == 67 && (info.DHCP.MsgType == 4 || info.DHCP.MsgType == 7) && reqK >= 0 {
					d := info.DHCP
					wantID := dID(reqK)
					x := uint32(d.XID[0])<<24 | uint32(d.XID[1])<<16 | uint32(d.XID[2])<<8 | uint32(d.XID[3])
					switch {
					case !bytes.Equal(d.CHAddr, dClients[reqK]):
						fail("frame", "decline-chaddr", fmt.Sprintf("forced DECLINE/RELEASE carries chaddr %x, the client it is sent for is %x", d.CHAddr, dClients[reqK]))
					case ev.Kind == "hunt":
						// the faked RELEASE of a hunted client's lease: RFC 2131 table 5 - ciaddr is the released address, the
						// server identifier MUST be present (the handler passes the real server's address and the client id)
						switch {
						case d.MsgType != 7 || d.CIAddr != huntIP:
							fail("frame", "release-ciaddr", fmt.Sprintf("StartHunt: faked message type %d with ciaddr %v, want a RELEASE of %v", d.MsgType, d.CIAddr, huntIP))
						case !bytes.Equal(d.Options[54], dRouter.AsSlice()):
							fail("frame", "release-server-id", fmt.Sprintf("StartHunt: the faked RELEASE carries server identifier %v, the handler addressed it to the server %v", d.Options[54], dRouter))
						case !bytes.Equal(d.Options[61], wantID):
							fail("frame", "release-clientid", fmt.Sprintf("StartHunt: the faked RELEASE carries client id %x, the lease belongs to %x", d.Options[61], wantID))
						}
					case x != reqXID:
						fail("frame", "decline-xid", fmt.Sprintf("forced DECLINE/RELEASE carries xid %x, the client's message had %x", x, reqXID))
					case d.Options[61] != nil && !bytes.Equal(d.Options[61], wantID):
						fail("frame", "decline-clientid", fmt.Sprintf("forced DECLINE/RELEASE carries client id %x, the client's is %x", d.Options[61], wantID))
					}
				}
				if os.Getenv("VERIF_DEBUG") != "" && (info.DHCP == nil || !bytes.HasPrefix(info.DHCP.CHAddr, []byte{0xff, 0xee})) {
					fmt.Fprintf(os.Stderr, "  sent kind=%s sport=%d dport=%d problems=%v dhcp=%+v\n", info.Kind, info.SrcPort, info.DstPort, info.Problems, info.DHCP)
				}
				if info.Kind != "dhcp4" || info.DHCP == nil || info.SrcPort != 67 || info.DHCP.Op != 2 {
					continue // attack bursts and forced declines towards the real server
				}
				d := info.DHCP
				k := clientOfReply(d.CHAddr, reqK)
				if k < 0 {
					continue
				}
				a := d.YIAddr
				mt := d.MsgType
				step.replies = append(step.replies, fmt.Sprintf("%d:c%d:%v", mt, k+1, a))
				captured := s.IsCaptured(dClients[k])
				if mt == 6 { // NAK
					delete(obs.acks, k)
					delete(obs.offer, k)
					continue
				}
				if mt != 2 && mt != 5 {
					continue
				}
				kind := map[byte]string{2: "OFFER", 5: "ACK"}[mt]
				// ---- C11: uniqueness and reserved addresses
				for y, ya := range obs.acks {
					if y != k && ya.ip == a {
						sig := strings.ToLower(kind) + "-of-acknowledged-address"
						note := ""
						stillInTable := false // does the server's own lease table still hold the owner's binding?
						for _, l := range h.VerifLeases() {
							if bytes.Equal(l.ClientID, dID(y)) && l.IP == a && (l.State == dhcp4.StateAllocated || l.State == dhcp4.StateDiscover) {
								stillInTable = true
							}
						}
						if (ya.moved || s.IsCaptured(dClients[y]) != ya.captured) && !stillInTable {
							// the owner was moved to the other subnet (captured / released, or its capture flag was lost with
							// its purged session entry) after the acknowledgement and the server has dropped its binding
							sig += ":owner-changed-subnet"
							note = fmt.Sprintf(" (c%d was captured=%v when it was acknowledged, was moved to the other subnet since and is captured=%v now)", y+1, ya.captured, s.IsCaptured(dClients[y]))
						}
						fail("unique", sig, fmt.Sprintf("%s of %v to c%d while it is still acknowledged to c%d%s", kind, a, k+1, y+1, note))
					}
				}
				subnet := dHome
				if captured {
					subnet = dNetf.Masked()
				}
				switch {
				case a == dHost:
					fail("unique", "reserved-host", fmt.Sprintf("%s of the host's own address %v", kind, a))
				case a == dRouter:
					fail("unique", "reserved-router", fmt.Sprintf("%s of the router's address %v", kind, a))
				case !subnet.Contains(a):
					fail("unique", "outside-subnet", fmt.Sprintf("%s of %v to c%d which is outside the client's subnet %v (captured=%v)", kind, a, k+1, subnet, captured))
				case a == subnet.Addr():
					fail("unique", "reserved-network", fmt.Sprintf("%s of the network address %v of %v", kind, a, subnet))
				case a == lastAddr(subnet):
					fail("unique", "reserved-broadcast", fmt.Sprintf("%s of the broadcast address %v of %v", kind, a, subnet))
				}
				if th := s.FindIP(a); th != nil && !bytes.Equal(th.MACEntry.MAC, dClients[k]) && mt == 2 {
					fail("unique", "tracked-by-other-mac", fmt.Sprintf("OFFER of %v to c%d while the session tracks it for %s", a, k+1, th.MACEntry.MAC))
				}
				// (confirming the lease a client already holds is not handing an address out: the clause is read for first
				// acknowledgements, like the offer clause)
				if m, ok := preTracked[a]; ok && m != string(dClients[k]) && mt == 5 && preAcks[k] != a {
					fail("unique", "ack-tracked-by-other-mac", fmt.Sprintf("ACK of %v to c%d while the session tracks it for %x", a, k+1, m))
				}
				// ---- C12: segregation and transaction conformance
				wantRouter, wantDNS, wantMask := dRouter, dDNS, []byte(net.CIDRMask(dHome.Bits(), 32))
				if captured {
					wantRouter, wantDNS, wantMask = dHost, dFamDNS, []byte(net.CIDRMask(dNetf.Bits(), 32))
				}
				opt := d.Options
				if !bytes.Equal(opt[3], wantRouter.AsSlice()) {
					fail("segregate", "router-option", fmt.Sprintf("%s to c%d (captured=%v) carries router %v, want %v", kind, k+1, captured, opt[3], wantRouter))
				}
				if !bytes.Equal(opt[6], wantDNS.AsSlice()) {
					fail("segregate", "dns-option", fmt.Sprintf("%s to c%d (captured=%v) carries DNS %v, want %v", kind, k+1, captured, opt[6], wantDNS))
				}
				if !bytes.Equal(opt[1], wantMask) {
					fail("segregate", "mask-option", fmt.Sprintf("%s to c%d (captured=%v) carries mask %v, want %v", kind, k+1, captured, opt[1], wantMask))
				}
				if bytes.IndexByte(d.Order, 1) > bytes.IndexByte(d.Order, 3) {
					fail("segregate", "mask-after-router", fmt.Sprintf("%s: subnet mask option after the router option (order %v)", kind, d.Order))
				}
				if !bytes.Equal(opt[54], dHost.AsSlice()) {
					fail("segregate", "server-id", fmt.Sprintf("%s carries server identifier %v, want %v", kind, opt[54], dHost))
				}
				if len(opt[51]) != 4 {
					fail("segregate", "lease-time", kind+" without a lease time option")
				}
				if k == reqK {
					x := uint32(d.XID[0])<<24 | uint32(d.XID[1])<<16 | uint32(d.XID[2])<<8 | uint32(d.XID[3])
					if x != reqXID {
						fail("segregate", "xid-echo", fmt.Sprintf("%s echoes xid %x, request had %x", kind, x, reqXID))
					}
				} else {
					fail("segregate", "reply-to-wrong-client", fmt.Sprintf("%s addressed to c%d in answer to a message of c%d", kind, k+1, reqK+1))
				}
				if mt == 5 {
					off, hasOff := obs.offer[k]
					cur, hasCur := obs.lease[k]
					okOffer := hasOff && off == a && obs.offerXID[k] == reqXID
					if ea, ok := obs.everOffer[k]; ok && ea == a && obs.everOfferXID[k] == reqXID {
						okOffer = true // the selection replays the transaction in which this address was offered
					}
					okLease := hasCur && cur.ip == a
					if !okOffer && !okLease {
						fail("segregate", "ack-unfounded", fmt.Sprintf("ACK of %v to c%d confirms neither the address offered in this transaction (%v) nor its current lease (%v)", a, k+1, off, cur.ip))
					}
					lt := uint32(0)
					if len(opt[51]) == 4 {
						lt = uint32(opt[51][0])<<24 | uint32(opt[51][1])<<16 | uint32(opt[51][2])<<8 | uint32(opt[51][3])
					}
					obs.acks[k] = dAck{ip: a, expiry: now + int64(lt)*int64(time.Second), captured: captured}
					obs.ackCap[k], obs.movedSince[k] = captured, false
					obs.lease[k] = obs.acks[k]
					delete(obs.maybe, k)
					delete(obs.offer, k)
				} else {
					obs.offer[k] = a
					obs.offerXID[k] = reqXID
					obs.everOffer[k], obs.everOfferXID[k] = a, reqXID
				}
			}
			if ev.Kind == "request" && (ev.Req == "otherserver" || ev.Req == "otherrenew" || ev.Req == "otherserver-offlan") {
				for _, r := range step.replies {
					if strings.HasPrefix(r, "5:") {
						fail("segregate", "ack-other-server", "ACK sent although the client selected another server")
					}
				}
			}
			img, _ := vfs.Get(dFile)
			res.files = append(res.files, append([]byte(nil), img...))
			res.opsAt = append(res.opsAt, len(vfs.Log()))
			step.snap = leasesKey(h.VerifLeases(), time.Unix(0, now)) + " | " + sessSnapshot(s, time.Unix(0, now))
			res.steps = append(res.steps, step)
			if si == len(hist)-1 {
				res.predicted = len(step.replies) > 0
			}
		}
		n1, n2, attack := h.VerifCursors()
		now := time.Unix(0, vsched.NowNanos())
		res.leases = h.VerifLeases()
		res.endTime = vsched.NowNanos()
		obs.expire(res.endTime)
		res.movedIDs = map[string]bool{}
		for k := 0; k < len(dClients); k++ {
			res.capEnd = append(res.capEnd, s.IsCaptured(dClients[k]))
			if a, ok := obs.lease[k]; ok {
				id := hex.EncodeToString(dID(k))
				res.acked = append(res.acked, binding{id, hex.EncodeToString(dClients[k]), a.ip})
			}
			if obs.movedSince[k] || obs.ackCap[k] != s.IsCaptured(dClients[k]) {
				res.movedIDs[hex.EncodeToString(dID(k))] = true
			}
		}
		sort.Slice(res.acked, func(i, j int) bool { return res.acked[i].id < res.acked[j].id })
		for k := 0; k < len(dClients); k++ {
			if a, ok := obs.maybe[k]; ok && res.endTime <= a.expiry {
				if _, held := obs.lease[k]; held {
					continue
				}
				id := hex.EncodeToString(dID(k))
				res.maybe = append(res.maybe, binding{id, hex.EncodeToString(dClients[k]), a.ip})
			}
		}
		res.key = fmt.Sprintf("%s cur=%v/%v attack=%d cap=%v%v%v obs=%s | %s", leasesKey(res.leases, now), n1, n2, int64(attack.Sub(now)),
			s.IsCaptured(dClients[0]), s.IsCaptured(dClients[1]), s.IsCaptured(dClients[2]), obs.key(), sessSnapshot(s, now))
		res.ops = append([]vfs.Op(nil), vfs.Log()...)
		res.written = completeImages(res.ops)
	})
	if ex.Outcome != vsched.Complete {
		viol("panic", "dhcp-"+ex.Outcome.String(), fmt.Sprintf("execution ended with %s: %v blocked=%v", ex.Outcome, firstLine(ex.Panics), ex.Blocked))
	}
	return res
}

func lastAddr(p netip.Prefix) netip.Addr {
	a := p.Masked().Addr().As4()
	bits := p.Bits()
	for i := 0; i < 4; i++ {
		for b := 0; b < 8; b++ {
			if i*8+b >= bits {
				a[i] |= 1 << (7 - b)
			}
		}
	}
	return netip.AddrFrom4(a)
}

type dhcpReplay struct {
	Kind   string   `json:"kind"`
	Hist   []int    `json:"hist"`
	Events []string `json:"events"`
	Mode   int      `json:"mode"`
	Layout int      `json:"layout"`
	Class  string   `json:"class"`
	Image  string   `json:"image,omitempty"`
	Sub    string   `json:"sub,omitempty"`
}

func dhcpSeeds(alpha []dEvent) [][]int {
	find := func(kind string, k int, req string) int {
		for i, e := range alpha {
			if e.Kind == kind && e.K == k && e.Req == req {
				return i
			}
		}
		panic("no dhcp event " + kind + req)
	}
	d1, d2, d3 := find("discover", 0, "none"), find("discover", 1, "none"), find("discover", 2, "none")
	r1, r2, r3 := find("request", 0, "last"), find("request", 1, "last"), find("request", 2, "last")
	tick2h, tickMin := -1, -1
	for i, e := range alpha {
		if e.Kind == "tick" && e.Dur == 2*time.Hour {
			tick2h = i
		}
		if e.Kind == "tick" && e.Dur == time.Minute {
			tickMin = i
		}
	}
	return [][]int{
		{d1, r1},                               // one client bound
		{d1, r1, d2, r2},                       // two clients bound
		{d1, d2},                               // two open offers
		{d1, r1, d2, r2, d3, r3},               // three clients bound: the pool is almost exhausted
		{find("capture", 0, ""), d1, r1},       // a captured client bound in the netfilter subnet
		{d1, find("discover", 1, "other")},     // a second client asked for the address that is on offer to the first
		{d1, r1, find("tick", 0, "")},          // a lease that has expired
		{d1, find("discover", 1, "other"), r2}, // the address on offer to the first client was acknowledged to the second
		{d1, find("tick", 0, ""), find("discover", 1, "other"), r2},     // same, after the first client's offer ran out
		{d1, r1, tick2h, tickMin},                                       // a bound client that was silent for two hours: the session has purged its host entry
		{d1, r1, tick2h, find("request", 0, "renew")},                   // a lease renewed half way through its life time
		{find("capture", 0, ""), d1, r1, tick2h, tickMin},               // a captured client bound in the netfilter subnet whose session entry was purged
		{find("capture", 0, ""), d1, find("discover", 1, "other"), r1},  // a captured client acknowledged the address that is also on offer to a client of the home subnet
		{find("discover", 3, "none"), find("discover", 0, "other"), r1}, // the address on offer to c4 was acknowledged to c1 (same hardware address)
		{find("discover", 0, "free"), r1},                               // c1 bound to the address that a station with a static configuration uses later ("seen")
		{d1, r1, d1, find("capture", 0, "")},                            // a bound client that is negotiating again is captured: its next message moves it to the other subnet
		{d1, r1, d1, d1},                                                // a bound client that negotiates again twice: the second offer need not be its current address
		{d1, r1, tick2h, tickMin, d1, tickMin},                          // a bound client, forgotten by the session, negotiates again and lets the offer run out
		{find("discover", 0, "free"), r1, find("seen", 0, ""), d1},      // a bound client whose address a static station took negotiates again: it holds a lease and an open offer for another address
	}
}

type layoutMode struct {
	layout int
	mode   dhcp4.Mode
	depth  int // 0: the tier's depth
}

// layoutsAndModes: both address plans for the first mode, the first plan for the others.
func layoutsAndModes(modes []dhcp4.Mode) []layoutMode {
	var l []layoutMode
	for i, m := range modes {
		l = append(l, layoutMode{0, m, 0})
		if i == 0 {
			l = append(l, layoutMode{1, m, 0}, layoutMode{2, m, 0}, layoutMode{3, m, 1})
		}
	}
	return l
}

func dhcpExplore(c *core.Ctx, class string) {
	modes := []dhcp4.Mode{dhcp4.ModeSecondaryServer}
	if c.Thorough() {
		modes = []dhcp4.Mode{dhcp4.ModeSecondaryServer, dhcp4.ModePrimaryServer, dhcp4.ModeSecondaryServerNice}
	}
	depth := 2
	if c.Thorough() {
		depth = 3
	}
	if v := c.Args["depth"]; v != 0 {
		depth = v
	}
	alpha := dhcpAlphabet()
	for _, lm := range layoutsAndModes(modes) {
		mode := lm.mode
		o := dhcpOpts{mode: mode, layout: lm.layout, poison: class == "frame"}
		setLayout(o.layout)
		d := depth
		if lm.depth > 0 {
			d = lm.depth
		}
		ex := &eseq.Explorer{NEvents: len(alpha), Depth: d, Shard: c.Shard, NShards: c.NShards, Seeds: dhcpSeeds(alpha)}
		if c.Deadline > 0 {
			ex.Deadline = time.Unix(c.Deadline-20, 0)
		}
		ex.Run = func(hist []int) eseq.StepResult {
			c.Progress(fmt.Sprintf("layout=%d mode=%d %v", o.layout, mode, hist))
			r := runDHCP(alpha, hist, o)
			sr := eseq.StepResult{Key: r.key, Predicted: r.predicted}
			if n := len(r.steps); n > 0 {
				sr.Obs = strings.Join(r.steps[n-1].replies, ";")
			}
			for _, v := range r.violations {
				if strings.HasPrefix(v, class+"|") || strings.HasPrefix(v, "panic|") || strings.HasPrefix(v, "setup|") {
					sr.Violations = append(sr.Violations, v)
				}
			}
			if class == "alias" && len(sr.Violations) == 0 {
				o2 := o
				o2.poison = true
				r2 := runDHCP(alpha, hist, o2)
				for i := range r.steps {
					if i < len(r2.steps) && (strings.Join(r.steps[i].replies, ";") != strings.Join(r2.steps[i].replies, ";") || r.steps[i].snap != r2.steps[i].snap) {
						sr.Violations = append(sr.Violations, fmt.Sprintf("alias|retained-alias|step %d: private buffers {%v %s} reused buffer {%v %s}", i+1, r.steps[i].replies, r.steps[i].snap, r2.steps[i].replies, r2.steps[i].snap))
						break
					}
					if i < len(r2.steps) && r.steps[i].frames != r2.steps[i].frames {
						sr.Violations = append(sr.Violations, fmt.Sprintf("alias|emitted-frames|step %d: the frames emitted with a reused (scribbled) receive buffer differ from those emitted with private buffers (replies %v)", i+1, r.steps[i].replies))
						break
					}
				}
			}
			if class == "persist" && len(sr.Violations) == 0 {
				for _, v := range dhcpPersistence(c, alpha, hist, o, r) {
					if strings.HasPrefix(v, "persist|corrupt-") {
						sr.Reports = append(sr.Reports, v) // judged per image; the history is still extended
					} else {
						sr.Violations = append(sr.Violations, v)
					}
				}
			}
			return sr
		}
		ex.OnState = func(h uint64) { c.DistinctHash(h ^ uint64(int(mode)+16*o.layout)*0x9e3779b97f4a7c15) }
		ex.OnViolation = func(hist []int, r eseq.StepResult) {
			for _, v := range r.Violations {
				parts := strings.SplitN(v, "|", 3)
				var evs []string
				for _, i := range hist {
					evs = append(evs, alpha[i].String())
				}
				c.Violate(parts[0]+"|"+parts[1], fmt.Sprintf("address plan %d mode %d history %v: %s", o.layout, mode, evs, parts[2]),
					dhcpReplay{Kind: "dhcp", Hist: hist, Events: evs, Mode: int(mode), Layout: o.layout, Class: class})
			}
		}
		ex.Explore()
		c.Count("states", ex.States)
		c.Count("transitions", ex.Transitions)
		c.Count("evaluations", ex.Transitions)
		c.Count("transitions_with_replies", ex.Predicted)
		c.Count("distinct_observations_local", int64(len(ex.ObsDistinct)))
		if int64(ex.MaxDepth) > c.Res.Counters["max_depth"] {
			c.Res.Counters["max_depth"] = int64(ex.MaxDepth)
		}
		if ex.CapHit != "" {
			c.Cap(ex.CapHit)
		}
	}
	c.Res.Bound = fmt.Sprintf("depth %d from the initial state and from %d scripted non-initial states; alphabet of %d events; %d operating mode(s); 3 address plans for the first mode plus a /22 home LAN at depth 1", depth, len(dhcpSeeds(alpha)), len(alpha), len(modes))
	var names []string
	for _, e := range alpha {
		names = append(names, e.String())
	}
	c.Sample(map[string]any{"history": []string{"discover(c1,none)", "discover(c2,other)", "request(c1,last)", "request(c2,last)"}}, 4)
	c.Sample(map[string]any{"alphabet": names}, 4)
}

func dhcpAssumptions() []string {
	return []string{
		"deliberately small pools, three address plans: home LAN 192.168.0.0/29 with (router .1, this host .6, netfilter subnet 192.168.0.4/30) and with (router .5, this host .2, netfilter subnet 192.168.0.0/30, sharing the network address of the home LAN) and with (router .1, this host .6, netfilter prefix /29 = the home LAN itself, the default when no netfilter prefix is configured); three clients (c3 identifies itself with a client-id option); lease time 4h",
		"the lease observer is built from the replies only: an acknowledgement ends by DECLINE/RELEASE from its owner, a NAK, a later ACK of another address, or expiry in virtual time",
		"real handler + real session under the sequential scheduler with virtual time; the lease file lives on an in-memory device that logs every operation",
		"crash model: process crash - operations take effect in program order, a crash can fall between any two operations or tear a write at any byte; loss or reordering of completed but unsynced writes (power failure) is not modelled",
	}
}

func dhcpReplayer(data []byte) string {
	var r dhcpReplay
	if jsonUnmarshal(data, &r) != nil {
		return ""
	}
	alpha := dhcpAlphabet()
	o := dhcpOpts{mode: dhcp4.Mode(r.Mode), layout: r.Layout, poison: r.Class == "frame"}
	res := runDHCP(alpha, r.Hist, o)
	if os.Getenv("VERIF_DEBUG") != "" {
		for i, st := range res.steps {
			fmt.Fprintf(os.Stderr, "step %d %s\n  replies=%v\n  snap=%s\n", i+1, alpha[r.Hist[i]], st.replies, st.snap)
		}
		fmt.Fprintf(os.Stderr, "violations=%v\n", res.violations)
	}
	for _, v := range res.violations {
		if strings.HasPrefix(v, r.Class+"|") || strings.HasPrefix(v, "panic|") || strings.HasPrefix(v, "setup|") {
			return v
		}
	}
	if r.Class == "persist" {
		c := core.NewCtx("C18", "thorough", "replay", 0, 1, "")
		v := dhcpPersistence(c, alpha, r.Hist, o, res)
		for _, x := range v { // a history can carry several findings: reproduce the one this artefact is about
			if ReplaySig != "" && strings.HasPrefix(x, ReplaySig+"|") {
				return x
			}
		}
		if len(v) > 0 && ReplaySig == "" {
			return v[0]
		}
	}
	if r.Class == "alias" {
		o.poison = true
		r2 := runDHCP(alpha, r.Hist, o)
		for i := range res.steps {
			if i < len(r2.steps) && (strings.Join(res.steps[i].replies, ";") != strings.Join(r2.steps[i].replies, ";") || res.steps[i].snap != r2.steps[i].snap) {
				return "alias|retained-alias"
			}
			if i < len(r2.steps) && res.steps[i].frames != r2.steps[i].frames {
				return "alias|emitted-frames"
			}
		}
	}
	return ""
}

func dhcpDriver(class, rule string) *Driver {
	return &Driver{
		Plan: func(tier string) []core.Job { return shardJobs("dhcp", 16, false, 1700) },
		Run: func(c *core.Ctx, args []string) {
			c.Res.Level = "model_checking"
			c.Res.Rule = rule
			c.Res.Assumptions = dhcpAssumptions()
			dhcpExplore(c, class)
		},
		Replay: dhcpReplayer,
	}
}

func init() {
	Registry["C11"] = dhcpDriver("unique", "explicit-state BFS over histories of DISCOVER (no / free / another client's / broadcast / network / off-subnet / host / router requested address), REQUEST (select with matching or stale xid, arbitrary or another client's address, other server, renew, reboot), DECLINE, RELEASE, capture toggles, lease expiry ticks and a frame that makes the session track an address for another MAC, from three clients in a 4-address pool; a lease observer built from the replies checks after every transition that no address is offered/acknowledged while acknowledged to another client and that reserved, off-subnet and session-tracked addresses are never handed out")
	Registry["C12"] = dhcpDriver("segregate", "same exploration as C11; every OFFER/ACK is checked against the capture state at that moment (subnet, router, DNS, mask placed before router, server id, lease time, xid and chaddr echo) and every ACK must confirm the address offered in that transaction or the current lease; requests that cannot be honoured must not be ACKed")
	sort.Strings(nil)
}
