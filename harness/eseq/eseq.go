// Package eseq is the explicit-state breadth-first explorer whose transition function is the real code:
// a state is represented by the shortest event history that reaches it; successors are computed by replaying the
// history on fresh objects plus one event; states are deduplicated by a canonical key.
package eseq

import (
	"hash/fnv"
	"time"
)

// StepResult of executing one history.
type StepResult struct {
	Key        string   // canonical state after the last event
	Obs        string   // observation vector of the last event (for vacuity statistics)
	Violations []string // non empty: the history violates an oracle (it is not extended)
	Reports    []string // violations that are reported but do not stop the exploration of this history
	Predicted  bool     // the reference model predicted a non-empty change for the last event
}

// Explorer configuration and statistics.
type Explorer struct {
	NEvents  int // size of the alphabet (events are indices)
	Depth    int
	Shard    int
	NShards  int
	Deadline time.Time
	Seeds    [][]int // non initial start histories (each is explored to Depth additional events)
	// Run executes a history on fresh objects.
	Run func(hist []int) StepResult
	// OnViolation is called for every violating history.
	OnViolation func(hist []int, r StepResult)
	// OnState is called for every new state (key hash) - used for the distinct state file.
	OnState func(h uint64)

	States      int64
	Transitions int64
	MaxDepth    int
	Predicted   int64
	ObsDistinct map[uint64]struct{}
	CapHit      string
	PerDepth    []int64
}

func hash(s string) uint64 {
	h := fnv.New64a()
	h.Write([]byte(s))
	return h.Sum64()
}

// Explore runs the BFS.
func (e *Explorer) Explore() {
	e.ObsDistinct = map[uint64]struct{}{}
	seen := map[uint64]struct{}{}
	type item struct {
		hist []int
		base int // length of the seed prefix
	}
	var frontier []item
	starts := append([][]int{nil}, e.Seeds...)
	for si, s := range starts {
		// every shard executes the start states (cheap); only shard 0 counts them
		r := e.Run(s)
		if len(r.Reports) > 0 && e.Shard == 0 && e.OnViolation != nil {
			rr := r
			rr.Violations = r.Reports
			e.OnViolation(s, rr)
		}
		if len(r.Violations) > 0 {
			if e.Shard == 0 && e.OnViolation != nil {
				e.OnViolation(s, r)
			}
			continue
		}
		k := hash(r.Key)
		if _, ok := seen[k]; !ok {
			seen[k] = struct{}{}
			if e.Shard == 0 {
				e.States++
				if e.OnState != nil {
					e.OnState(k)
				}
			}
		}
		frontier = append(frontier, item{append([]int(nil), s...), len(s)})
		_ = si
	}
	e.PerDepth = make([]int64, e.Depth+1)
	for len(frontier) > 0 {
		it := frontier[0]
		frontier = frontier[1:]
		d := len(it.hist) - it.base
		if d >= e.Depth {
			continue
		}
		for ev := 0; ev < e.NEvents; ev++ {
			if d == 0 && e.NShards > 1 && ev%e.NShards != e.Shard {
				continue // depth-1 successors are partitioned over the shards
			}
			if !e.Deadline.IsZero() && time.Now().After(e.Deadline) {
				e.CapHit = "time budget"
				return
			}
			h := append(append([]int(nil), it.hist...), ev)
			r := e.Run(h)
			e.Transitions++
			e.PerDepth[d+1]++
			if d+1 > e.MaxDepth {
				e.MaxDepth = d + 1
			}
			if r.Predicted {
				e.Predicted++
			}
			e.ObsDistinct[hash(r.Obs)] = struct{}{}
			if len(r.Reports) > 0 && e.OnViolation != nil {
				rr := r
				rr.Violations = r.Reports
				e.OnViolation(h, rr)
			}
			if len(r.Violations) > 0 {
				if e.OnViolation != nil {
					e.OnViolation(h, r)
				}
				continue
			}
			k := hash(r.Key)
			if _, ok := seen[k]; ok {
				continue
			}
			seen[k] = struct{}{}
			e.States++
			if e.OnState != nil {
				e.OnState(k)
			}
			frontier = append(frontier, item{h, it.base})
		}
	}
}
