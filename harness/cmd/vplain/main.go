// vplain is the un-instrumented harness binary (no overlay, no shims): it measures what the shims would disturb.
// It implements property C16: parsing is zero-copy and allocation-free in steady state.
package main

import (
	"encoding/hex"
	"encoding/json"
	"flag"
	"fmt"
	"io"
	"net"
	"net/netip"
	"os"
	"os/signal"
	"strconv"
	"syscall"
	"testing"
	"time"
	"unsafe"

	"harness/core"
	"harness/refnet"
	"harness/tmpl"

	"github.com/irai/packet"
	"github.com/irai/packet/fastlog"
)

type nullConn struct{}

func (nullConn) WriteTo(b []byte, addr net.Addr) (int, error) { return len(b), nil }
func (nullConn) ReadFrom(b []byte) (int, net.Addr, error)     { return 0, nil, io.EOF }
func (nullConn) Close() error                                 { return nil }
func (nullConn) LocalAddr() net.Addr                          { return nil }
func (nullConn) SetDeadline(t time.Time) error                { return nil }
func (nullConn) SetReadDeadline(t time.Time) error            { return nil }
func (nullConn) SetWriteDeadline(t time.Time) error           { return nil }

type nicCfg struct {
	name string
	nic  *packet.NICInfo
}

func nics() []nicCfg {
	mk := func(home, host, router string, lla bool) *packet.NICInfo {
		n := &packet.NICInfo{
			IFI:         &net.Interface{Index: 1, MTU: 1500, Name: "veth0", HardwareAddr: tmpl.HostMAC},
			HomeLAN4:    netip.MustParsePrefix(home).Masked(),
			HostAddr4:   packet.Addr{MAC: tmpl.HostMAC, IP: netip.MustParseAddr(host)},
			RouterAddr4: packet.Addr{MAC: tmpl.RouterMAC, IP: netip.MustParseAddr(router)},
		}
		if lla {
			n.HostLLA = netip.PrefixFrom(tmpl.HostLLA, 64)
			n.RouterLLA = netip.PrefixFrom(tmpl.RouterLLA, 64)
		}
		return n
	}
	return []nicCfg{
		{"lan24", mk("192.168.0.0/24", "192.168.0.129", "192.168.0.1", true)},
		{"lan16", mk("192.168.0.0/16", "192.168.1.129", "192.168.1.1", true)},
		{"nolla", mk("192.168.0.0/24", "192.168.0.129", "192.168.0.1", false)},
	}
}

type replay struct {
	Kind  string `json:"kind"`
	NIC   string `json:"nic"`
	Hex   string `json:"hex"`
	Hex2  string `json:"hex2,omitempty"` // pair: the second frame
	Spare int    `json:"spare"`
}

func offOf(base, s []byte) int {
	return int(uintptr(unsafe.Pointer(unsafe.SliceData(s))) - uintptr(unsafe.Pointer(unsafe.SliceData(base))))
}

// checkFrame verifies aliasing and allocation freedom for one accepted frame. Returns a violation signature/what.
func checkFrame(s *packet.Session, name string, f []byte, spare int) (sig, what string, class string) {
	want := refnet.Classify(f)
	if want.Err != refnet.No {
		return "", "", ""
	}
	// spare > 0: the frame sits at the start of a larger read buffer whose remaining bytes hold stale data
	whole := make([]byte, len(f)+spare)
	for i := range whole {
		whole[i] = 0xa5
	}
	copy(whole, f)
	buf := whole[:len(f)]
	frame, err := s.Parse(buf)
	if err != nil {
		return "", "", ""
	}
	type v struct {
		name string
		b    []byte
		off  int
	}
	views := []v{{"Ether", frame.Ether(), 0}, {"IP4", frame.IP4(), want.OffIP4}, {"IP6", frame.IP6(), want.OffIP6}, {"UDP", frame.UDP(), want.OffUDP}, {"TCP", frame.TCP(), want.OffTCP}, {"Payload", frame.Payload(), want.OffPayload}}
	for _, x := range views {
		if x.b == nil || len(x.b) == 0 {
			continue
		}
		if got := offOf(buf, x.b); got != x.off {
			return "alias-offset|" + x.name, fmt.Sprintf("%s: %s() starts at offset %d of the caller buffer, want %d", name, x.name, got, x.off), ""
		}
		if x.off+len(x.b) > len(buf) {
			return "alias-extends|" + x.name, fmt.Sprintf("%s: %s() extends %d bytes beyond the frame", name, x.name, x.off+len(x.b)-len(buf)), ""
		}
		// write through the view is visible in the buffer and vice versa
		old := x.b[0]
		x.b[0] = old ^ 0xff
		if buf[x.off] != old^0xff {
			return "alias-write|" + x.name, fmt.Sprintf("%s: a write through %s() is not visible in the caller buffer (copy)", name, x.name), ""
		}
		buf[x.off] = old
		if x.b[0] != old {
			return "alias-read|" + x.name, fmt.Sprintf("%s: a write to the caller buffer is not visible through %s()", name, x.name), ""
		}
	}
	if frame.SrcAddr.MAC != nil && offOf(buf, frame.SrcAddr.MAC) != 6 {
		return "alias-offset|SrcAddr.MAC", name + ": SrcAddr.MAC does not alias the frame", ""
	}
	if spare > 0 {
		return "", "", "" // allocation is measured on the exact-capacity variant only
	}
	// steady state: the source is now tracked (or untracked by rule); parsing again must not allocate
	s.Parse(buf)
	allocs := testing.AllocsPerRun(100, func() { s.Parse(buf) })
	class = "untracked"
	if frame.Host != nil {
		class = "tracked"
	}
	if allocs != 0 {
		return "alloc|" + packet.PayloadID(want.PayloadID).String(), fmt.Sprintf("%s: Parse allocates %.1f objects per call in steady state (PayloadID=%v source=%s)", name, allocs, packet.PayloadID(want.PayloadID), class), class
	}
	return "", "", class
}

func main() {
	prop := flag.String("prop", "C16", "")
	tier := flag.String("tier", "quick", "")
	job := flag.String("job", "alloc", "")
	shard := flag.Int("shard", 0, "")
	nshards := flag.Int("nshards", 1, "")
	out := flag.String("out", "", "")
	replayFile := flag.String("replay", "", "")
	flag.Int64("seed", 0, "")
	flag.Int64("deadline", 0, "")
	flag.Parse()
	signal.Ignore(syscall.SIGTERM) // the NIC watchdog of the un-instrumented session must not stop the measurement
	fastlog.DefaultIOWriter = io.Discard
	packet.Logger.Disable()
	if f, err := os.OpenFile("/dev/null", os.O_WRONLY, 0); err == nil {
		os.Stdout = f
	}
	if *replayFile != "" {
		data, _ := os.ReadFile(*replayFile)
		var r struct {
			Replay replay `json:"replay"`
		}
		json.Unmarshal(data, &r)
		f, _ := hex.DecodeString(r.Replay.Hex)
		for _, n := range nics() {
			if n.name == r.Replay.NIC {
				s, _ := packet.Config{Conn: nullConn{}, NICInfo: n.nic}.NewSession("")
				if r.Replay.Kind == "pair" {
					g, _ := hex.DecodeString(r.Replay.Hex2)
					for i := 0; i < 3; i++ {
						s.Parse(f)
						s.Parse(g)
					}
					if allocs := testing.AllocsPerRun(3, func() { s.Parse(f); s.Parse(g) }); allocs != 0 {
						fmt.Fprintf(os.Stderr, "REPRODUCED property=C16 alloc-mixed: alternating the two frames allocates %.1f objects per pair\n", allocs)
						os.Exit(1)
					}
					continue
				}
				if sig, what, _ := checkFrame(s, "replay", f, r.Replay.Spare); sig != "" {
					fmt.Fprintf(os.Stderr, "REPRODUCED property=C16 %s: %s\n", sig, what)
					os.Exit(1)
				}
			}
		}
		fmt.Fprintln(os.Stderr, "not reproduced")
		return
	}
	c := core.NewCtx(*prop, *tier, *job, *shard, *nshards, *out)
	c.Res.Level = "exploration"
	c.Res.Rule = "every full length frame template of every PayloadID class and address family (the C01/C02 template set: EtherTypes x source MAC classes own/router/multicast/client, on-LAN/off-LAN/zero sources, all classified UDP ports, TCP, ICMP, ARP, VLAN, long frames) that the reference decoder accepts, under each NIC configuration; per frame: data pointer of every view == &buf[reference offset], no view beyond the frame (also when the frame sits in a larger read buffer with stale bytes behind it, and when a UDP length field claims more than was received), write-through in both directions, and testing.AllocsPerRun(100, Parse)==0 once the source is tracked; every ordered pair of accepted templates parsed alternately must not allocate either (state that remembers the previous frame), except pairs that are an IP change or an address conflict on every frame. distinct non-trivial = distinct accepted frames x NIC configuration"
	c.Res.Assumptions = []string{"runs on the un-instrumented build of /repo's working tree (allocation counts of the shimmed build would measure the shims)", "the class space is finite and fully enumerated; the allocation count is a deterministic measurement per class"}
	cfgs := nics()
	if *tier != "thorough" {
		cfgs = cfgs[:1]
	}
	classes := map[string]int{}
	idx := 0
	for _, n := range cfgs {
		s, err := packet.Config{Conn: nullConn{}, NICInfo: n.nic}.NewSession("")
		if err != nil {
			fmt.Fprintln(os.Stderr, err)
			os.Exit(2)
		}
		for _, t := range tmpl.FrameTemplates(true) {
			idx++
			if !c.Mine(idx) {
				continue
			}
			c.Progress(n.name + " " + t.Name)
			c.Count("evaluations", 1)
			sig, what, class := checkFrame(s, n.name+"/"+t.Name, t.Frame, 0)
			if class != "" {
				c.Count("measured_"+class, 1)
				c.Distinct(append([]byte(n.name), t.Frame...))
				classes[packet.PayloadID(refnet.Classify(t.Frame).PayloadID).String()]++
			}
			if sig != "" {
				c.Violate(sig, what, replay{Kind: "frame", NIC: n.name, Hex: hex.EncodeToString(t.Frame)})
			}
			// the same frame inside a larger read buffer, and (UDP) with a length field that claims more than was received
			variants := [][]byte{t.Frame}
			if d := refnet.Classify(t.Frame); d.Err == refnet.No && d.OffUDP != 0 && d.OffUDP+6 <= len(t.Frame) {
				lying := append([]byte(nil), t.Frame...)
				n := int(lying[d.OffUDP+4])<<8 | int(lying[d.OffUDP+5])
				n += 24
				lying[d.OffUDP+4], lying[d.OffUDP+5] = byte(n>>8), byte(n)
				variants = append(variants, lying)
			}
			for _, fr := range variants {
				c.Count("evaluations", 1)
				c.Count("spare_capacity_variants", 1)
				if sig, what, _ := checkFrame(s, n.name+"/"+t.Name+"+spare", fr, 64); sig != "" {
					c.Violate(sig, what, replay{Kind: "frame", NIC: n.name, Hex: hex.EncodeToString(fr), Spare: 64})
				}
			}
		}
		// mixed traffic: every ordered pair of accepted templates parsed alternately. A per-class measurement cannot see
		// state that remembers the PREVIOUS frame (a one-entry cache, a "log when it changes" slot); a pair can.
		// Pairs that legitimately change the tables on every frame are left out: the same MAC on two IPv4 addresses
		// (each frame is an IP change) and one address used by two MACs (each frame re-binds it).
		if c.Mine(0) {
			type tf struct {
				name string
				buf  []byte
				host *packet.Host
			}
			var acc []tf
			for _, t := range tmpl.FrameTemplates(true) {
				b := append(make([]byte, 0, len(t.Frame)), t.Frame...)
				f, err := s.Parse(b)
				if err != nil {
					continue
				}
				acc = append(acc, tf{t.Name, b, f.Host})
			}
			for i := range acc {
				for j := range acc {
					a, b := acc[i], acc[j]
					if i == j {
						continue
					}
					if a.host != nil && b.host != nil && a.host != b.host {
						if a.host.MACEntry == b.host.MACEntry && a.host.Addr.IP.Is4() && b.host.Addr.IP.Is4() {
							continue
						}
						if a.host.Addr.IP == b.host.Addr.IP {
							continue
						}
					}
					c.Count("evaluations", 1)
					c.Count("alternating_pairs", 1)
					s.Parse(a.buf)
					s.Parse(b.buf)
					if allocs := testing.AllocsPerRun(3, func() { s.Parse(a.buf); s.Parse(b.buf) }); allocs != 0 {
						c.Violate("alloc-mixed|"+a.name, fmt.Sprintf("%s: alternating %s and %s allocates %.1f objects per pair in steady state", n.name, a.name, b.name, allocs), replay{Kind: "pair", NIC: n.name, Hex: hex.EncodeToString(a.buf), Hex2: hex.EncodeToString(b.buf)})
						break
					}
				}
			}
		}
		s.Close()
	}
	c.Count("payload_classes_local", int64(len(classes)))
	c.Sample(map[string]any{"template": "udp4-40000-53", "nic": "lan24", "checked": "pointers, write-through, allocs/op"}, 4)
	c.Sample(map[string]any{"classes_seen_by_this_shard": classes}, 4)
	res := c.Finish()
	name := *out + "/result-" + *prop + "-" + *job + "-" + strconv.Itoa(*shard) + ".json"
	f, err := os.Create(name)
	if err != nil {
		json.NewEncoder(os.Stderr).Encode(res)
		return
	}
	json.NewEncoder(f).Encode(res)
	f.Close()
}
