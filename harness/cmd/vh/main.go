// vh is the instrumented harness binary: it plans and executes the worker jobs of every property.
package main

import (
	"encoding/json"
	"flag"
	"fmt"
	"os"
	"runtime"
	"runtime/debug"
	"strconv"
	"time"

	"harness/core"
	"harness/env"
	"harness/props"
)

func main() {
	prop := flag.String("prop", "", "property id")
	tier := flag.String("tier", "quick", "quick|thorough")
	plan := flag.Bool("plan", false, "print the job plan")
	job := flag.String("job", "", "job name")
	shard := flag.Int("shard", 0, "shard index")
	nshards := flag.Int("nshards", 1, "number of shards")
	out := flag.String("out", "", "output directory")
	replay := flag.String("replay", "", "replay file")
	toy := flag.String("toy", "", "race toy: unlocked|locked")
	seed := flag.Int64("seed", 0, "seed (selects samples only)")
	deadline := flag.Int64("deadline", 0, "unix time at which the worker stops exploring (exhaustive=false)")
	flag.Parse()
	runtime.GOMAXPROCS(2)
	debug.SetGCPercent(200)
	stdout := os.Stdout
	env.Quiet()

	if *toy != "" {
		props.RaceToy(*toy == "locked")
		return
	}
	if *replay != "" {
		data, err := os.ReadFile(*replay)
		if err != nil {
			fmt.Fprintln(os.Stderr, err)
			os.Exit(2)
		}
		var r struct {
			Property  string          `json:"property"`
			Signature string          `json:"signature"`
			Replay    json.RawMessage `json:"replay"`
		}
		if err := json.Unmarshal(data, &r); err != nil {
			fmt.Fprintln(os.Stderr, err)
			os.Exit(2)
		}
		d := props.Registry[r.Property]
		if d == nil || d.Replay == nil {
			fmt.Fprintln(os.Stderr, "no replay for", r.Property)
			os.Exit(2)
		}
		props.ReplaySig = r.Signature
		if what := d.Replay(r.Replay); what != "" {
			fmt.Fprintf(os.Stderr, "REPRODUCED property=%s %s\n", r.Property, what)
			os.Exit(1)
		}
		fmt.Fprintln(os.Stderr, "not reproduced")
		return
	}
	d := props.Registry[*prop]
	if d == nil {
		fmt.Fprintln(os.Stderr, "unknown property", *prop)
		os.Exit(2)
	}
	if *plan {
		json.NewEncoder(stdout).Encode(d.Plan(*tier))
		return
	}
	// hang backstop: a single case that makes no progress (no Progress, Count or Distinct call) for 10 minutes of real
	// time (typical cases take milliseconds) is a hang outside the instrumented loops; the worker dies and the driver attributes the crash
	go func() {
		last, since := core.ProgressTicks.Load(), time.Now()
		for {
			time.Sleep(5 * time.Second)
			if cur := core.ProgressTicks.Load(); cur != last {
				last, since = cur, time.Now()
			} else if time.Since(since) > 10*time.Minute {
				fmt.Fprintln(os.Stderr, "vh: no progress for 10 minutes: hang")
				buf := make([]byte, 1<<16)
				n := runtime.Stack(buf, true)
				os.Stderr.Write(buf[:n])
				os.Exit(3)
			}
		}
	}()
	c := core.NewCtx(*prop, *tier, *job, *shard, *nshards, *out)
	c.Seed = *seed
	c.Deadline = *deadline
	for _, a := range flag.Args() {
		for i := 0; i < len(a); i++ {
			if a[i] == '=' {
				if v, err := strconv.Atoi(a[i+1:]); err == nil {
					c.Args[a[:i]] = v
				}
			}
		}
	}
	d.Run(c, flag.Args())
	res := c.Finish()
	name := *out + "/result-" + *prop + "-" + *job + "-" + strconv.Itoa(*shard) + ".json"
	if *out == "" {
		json.NewEncoder(stdout).Encode(res)
		return
	}
	f, err := os.Create(name)
	if err != nil {
		fmt.Fprintln(os.Stderr, err)
		os.Exit(2)
	}
	json.NewEncoder(f).Encode(res)
	f.Close()
}
