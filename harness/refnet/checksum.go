// Package refnet is the independent reference decoder/encoder (written from the RFC field layouts; it shares no
// code with the repository).
package refnet

// Sum1071 returns the 16 bit one's complement sum (not complemented) of b read as big endian words, RFC 1071.
func Sum1071(b []byte) uint16 {
	var acc uint64
	n := len(b)
	for i := 0; i+1 < n; i += 2 {
		acc += uint64(b[i])<<8 | uint64(b[i+1])
	}
	if n%2 == 1 {
		acc += uint64(b[n-1]) << 8
	}
	for acc>>16 != 0 {
		acc = (acc & 0xffff) + (acc >> 16)
	}
	return uint16(acc)
}

// Checksum1071 is the internet checksum in big endian (wire) order.
func Checksum1071(b []byte) uint16 { return ^Sum1071(b) }

// Swap16 swaps the bytes of v.
func Swap16(v uint16) uint16 { return v<<8 | v>>8 }

// AddOnes adds two one's complement sums.
func AddOnes(a, b uint16) uint16 {
	s := uint32(a) + uint32(b)
	for s>>16 != 0 {
		s = (s & 0xffff) + (s >> 16)
	}
	return uint16(s)
}

// VerifiesIP4Header reports whether a complete IPv4 header (with its checksum field) sums to 0xffff.
func VerifiesIP4Header(h []byte) bool { return Sum1071(h) == 0xffff }

// ICMP6Pseudo builds the IPv6 pseudo header followed by the upper layer bytes.
func ICMP6Pseudo(src, dst [16]byte, upper []byte, next byte) []byte {
	p := make([]byte, 0, 40+len(upper))
	p = append(p, src[:]...)
	p = append(p, dst[:]...)
	l := uint32(len(upper))
	p = append(p, byte(l>>24), byte(l>>16), byte(l>>8), byte(l))
	p = append(p, 0, 0, 0, next)
	p = append(p, upper...)
	return p
}
