package refnet

import (
	"net/netip"
)

// PayloadID values restated from the documented list (layer_frame.go constants are not imported).
const (
	PEther = 1 + iota
	P8023
	PARP
	PIP4
	PIP6
	PICMP4
	PICMP6
	PUDP
	PTCP
	PDHCP4
	PDHCP6
	PDNS
	PMDNS
	PSSL
	PNTP
	PSSDP
	PWSDP
	PNBNS
	PPlex
	PUbiquiti
	PLLMNR
	PIGMP
	PEthernetPause
	PRRCP
	PLLDP
	P80211r
	PIEEE1905
	PSonos
	P880a
)

// Tri is a three valued expectation.
type Tri int

const (
	No Tri = iota
	Yes
	Either // the property does not constrain this case
)

// Decoded is what the reference decoder expects Session.Parse to report.
type Decoded struct {
	Err        Tri // Yes: an error must be returned. No: must not. Either: unconstrained
	PayloadID  int
	SrcMAC     [6]byte
	DstMAC     [6]byte
	SrcIP      netip.Addr
	DstIP      netip.Addr
	SrcPort    uint16
	DstPort    uint16
	OffIP4     int
	OffIP6     int
	OffUDP     int
	OffTCP     int
	OffPayload int
	PayloadEnd int // end of the payload (0: the end of the frame)
	// ARP sender (valid when PayloadID==PARP and no error)
	ARPSenderMAC [6]byte
	ARPSenderIP  netip.Addr
	EchoReplyID  int // >=0 when the frame is a well formed ICMP echo reply
	Stage        string
}

func be16(b []byte) uint16 { return uint16(b[0])<<8 | uint16(b[1]) }
func be32(b []byte) uint32 {
	return uint32(b[0])<<24 | uint32(b[1])<<16 | uint32(b[2])<<8 | uint32(b[3])
}

// EtherHeaderLen is 14 plus the 802.1Q / 802.1ad tags.
func EtherHeaderLen(ethertype uint16) int {
	switch ethertype {
	case 0x8100:
		return 18
	case 0x88a8:
		return 22
	}
	return 14
}

var etherTable = map[uint16]int{
	0x8808: PEthernetPause, 0x8899: PRRCP, 0x88cc: PLLDP, 0x890d: P80211r, 0x893a: PIEEE1905, 0x6970: PSonos, 0x880a: P880a,
}

type portRule struct {
	id      int
	ports   []uint16
	dstOnly bool
}

// ordered UDP port rules (first match wins)
var portRules = []portRule{
	{PSSL, []uint16{443}, false},
	{PDHCP4, []uint16{67, 68}, true},
	{PDHCP6, []uint16{546, 547}, true},
	{PDNS, []uint16{53}, false},
	{PMDNS, []uint16{5353}, false},
	{PLLMNR, []uint16{5355}, false},
	{PNTP, []uint16{123}, false},
	{PSSDP, []uint16{1900}, false},
	{PWSDP, []uint16{3702}, false},
	{PNBNS, []uint16{137, 138}, true},
	{PPlex, []uint16{32412, 32414}, true},
	{PUbiquiti, []uint16{10001}, false},
}

// ClassifyUDP applies the ordered port table.
func ClassifyUDP(src, dst uint16) int {
	for _, r := range portRules {
		for _, p := range r.ports {
			if dst == p || (!r.dstOnly && src == p) {
				return r.id
			}
		}
	}
	return PUDP
}

// Classify is the reference for Session.Parse.
func Classify(f []byte) Decoded {
	d := Decoded{EchoReplyID: -1}
	if len(f) < 14 {
		d.Err = Yes
		d.Stage = "ether"
		return d
	}
	copy(d.DstMAC[:], f[0:6])
	copy(d.SrcMAC[:], f[6:12])
	et := be16(f[12:14])
	hl := EtherHeaderLen(et)
	d.PayloadID = PEther
	d.OffPayload = hl
	if len(f) < hl {
		// a VLAN tagged frame shorter than its own header
		d.Err = Yes
		d.Stage = "ether-tag"
		return d
	}
	if f[6]&1 == 1 { // multicast / broadcast source: not parsed further
		return d
	}
	if et < 1536 {
		d.PayloadID = P8023
		return d
	}
	p := f[hl:]
	var proto byte
	switch et {
	case 0x0800:
		d.PayloadID = PIP4
		d.Stage = "ip4"
		if len(p) < 20 {
			d.Err = Yes
			return d
		}
		ihl := int(p[0]&0x0f) * 4
		tot := int(be16(p[2:4]))
		if ihl < 20 || len(p) < ihl || tot < ihl || len(p) < tot {
			d.Err = Yes
			return d
		}
		d.OffIP4 = hl
		d.OffPayload = hl + ihl
		proto = p[9]
		d.SrcIP = netip.AddrFrom4([4]byte(p[12:16]))
		d.DstIP = netip.AddrFrom4([4]byte(p[16:20]))
		// the datagram ends at the total length: bytes after it are Ethernet padding and belong to no upper layer
		upper := p[ihl:tot]
		d.PayloadEnd = hl + tot
		return classifyUpper(d, proto, upper, upper, false)
	case 0x86dd:
		d.PayloadID = PIP6
		d.Stage = "ip6"
		if len(p) < 40 {
			d.Err = Yes
			return d
		}
		pl := int(be16(p[4:6]))
		if 40+pl > len(p) {
			d.Err = Yes
			return d
		}
		padded := 40+pl < len(p)
		if padded {
			// trailing bytes after the IPv6 payload (Ethernet padding): the implementation may reject or accept
			d.Err = Either
		}
		d.OffIP6 = hl
		d.OffPayload = hl + 40
		proto = p[6]
		d.SrcIP = netip.AddrFrom16([16]byte(p[8:24]))
		d.DstIP = netip.AddrFrom16([16]byte(p[24:40]))
		return classifyUpper(d, proto, p[40:40+pl], p[40:], padded)
	case 0x0806:
		d.PayloadID = PARP
		d.Stage = "arp"
		if len(p) < 28 || p[4] != 6 {
			d.Err = Yes
			return d
		}
		copy(d.ARPSenderMAC[:], p[8:14])
		d.ARPSenderIP = netip.AddrFrom4([4]byte(p[14:18]))
		return d
	}
	if id, ok := etherTable[et]; ok {
		d.PayloadID = id
	}
	return d
}

// classifyUpper: upper is the transport data bounded by the IP length fields, loose is everything up to the end of
// the frame (including Ethernet padding). Where the two readings disagree about truncation the case is unconstrained.
func classifyUpper(d Decoded, proto byte, upper, loose []byte, padded bool) Decoded {
	either := func(strict, lax bool) Tri {
		if d.Err == Either {
			return Either
		}
		if strict == lax {
			if strict {
				return Yes
			}
			return No
		}
		return Either
	}
	switch proto {
	case 17:
		d.PayloadID = PUDP
		d.Stage = "udp"
		d.Err = either(len(upper) < 8, len(loose) < 8)
		if len(loose) < 8 {
			return d
		}
		d.OffUDP = d.OffPayload
		d.SrcPort = be16(loose[0:2])
		d.DstPort = be16(loose[2:4])
		d.PayloadID = ClassifyUDP(d.SrcPort, d.DstPort)
		if d.PayloadID != PUDP {
			d.OffPayload += 8
		}
	case 6:
		d.PayloadID = PTCP
		d.Stage = "tcp"
		bad := func(b []byte) bool {
			if len(b) < 20 {
				return true
			}
			doff := int(b[12]>>4) * 4
			return doff < 20 || doff > len(b)
		}
		d.Err = either(bad(upper), bad(loose))
		if len(loose) < 20 {
			return d
		}
		d.OffTCP = d.OffPayload
		d.SrcPort = be16(loose[0:2])
		d.DstPort = be16(loose[2:4])
	case 1, 58:
		d.Stage = "icmp"
		d.Err = either(len(upper) < 8, len(loose) < 8)
		if len(loose) < 8 {
			return d
		}
		if proto == 1 {
			d.PayloadID = PICMP4
			if loose[0] == 0 && len(upper) >= 8 {
				d.EchoReplyID = int(be16(loose[4:6]))
			}
		} else {
			d.PayloadID = PICMP6
			if loose[0] == 129 && len(upper) >= 8 {
				d.EchoReplyID = int(be16(loose[4:6]))
			}
		}
	case 2:
		d.PayloadID = PIGMP
	}
	return d
}

// HostCandidate returns the (mac, ip) pair for which the tracking rules demand a host entry, given the reference
// decode of an accepted frame. ok=false when no host must be created.
func (d Decoded) HostCandidate(ownMAC, routerMAC [6]byte, home netip.Prefix) (mac [6]byte, ip netip.Addr, ok bool) {
	if d.Err == Yes || d.SrcMAC[0]&1 == 1 || d.SrcMAC == ownMAC {
		return
	}
	switch {
	case d.OffIP4 != 0:
		if home.Contains(d.SrcIP) {
			return d.SrcMAC, d.SrcIP, true
		}
	case d.OffIP6 != 0:
		if d.SrcIP.IsLinkLocalUnicast() || (d.SrcIP.IsGlobalUnicast() && d.SrcMAC != routerMAC) {
			return d.SrcMAC, d.SrcIP, true
		}
	case d.PayloadID == PARP:
		if home.Contains(d.ARPSenderIP) {
			return d.ARPSenderMAC, d.ARPSenderIP, true
		}
	}
	return
}
