package refnet

import (
	"net/netip"
)

// Independent frame builders (RFC layouts). They never call into the repository.

func put16(b []byte, v uint16) { b[0] = byte(v >> 8); b[1] = byte(v) }
func put32(b []byte, v uint32) {
	b[0] = byte(v >> 24)
	b[1] = byte(v >> 16)
	b[2] = byte(v >> 8)
	b[3] = byte(v)
}

// Eth builds an Ethernet II frame.
func Eth(dst, src []byte, ethertype uint16, payload []byte) []byte {
	f := make([]byte, 14+len(payload))
	copy(f[0:6], dst)
	copy(f[6:12], src)
	put16(f[12:14], ethertype)
	copy(f[14:], payload)
	return f
}

// EthVLAN builds an 802.1Q tagged frame (tags = 1) or 802.1ad (tags = 2).
func EthVLAN(dst, src []byte, tags int, inner uint16, payload []byte) []byte {
	n := 14 + 4*tags
	f := make([]byte, n+len(payload))
	copy(f[0:6], dst)
	copy(f[6:12], src)
	if tags == 1 {
		put16(f[12:14], 0x8100)
		put16(f[14:16], 0x0064)
		put16(f[16:18], inner)
	} else {
		put16(f[12:14], 0x88a8)
		put16(f[14:16], 0x0064)
		put16(f[16:18], 0x8100)
		put16(f[18:20], 0x00c8)
		put16(f[20:22], inner)
	}
	copy(f[n:], payload)
	return f
}

// IP4Opt are the overridable fields of an IPv4 header.
type IP4Opt struct {
	IHL      int // in 32 bit words; 0 = 5
	TotalLen int // -1 = computed
	TTL      byte
	ID       uint16
	FlagsOff uint16
	TOS      byte
	Options  []byte
}

// IP4 builds an IPv4 packet with a correct header checksum.
func IP4(src, dst netip.Addr, proto byte, payload []byte, o IP4Opt) []byte {
	ihl := o.IHL
	if ihl == 0 {
		ihl = 5 + (len(o.Options)+3)/4
	}
	hl := ihl * 4
	if hl < 20 {
		hl = 20 // physical header bytes are always at least 20; the IHL field may lie
	}
	p := make([]byte, hl+len(payload))
	p[0] = 0x40 | byte(ihl&0x0f)
	p[1] = o.TOS
	tot := o.TotalLen
	if tot < 0 || (tot == 0 && o.IHL == 0) {
		tot = hl + len(payload)
	}
	put16(p[2:4], uint16(tot))
	put16(p[4:6], o.ID)
	put16(p[6:8], o.FlagsOff)
	ttl := o.TTL
	if ttl == 0 {
		ttl = 64
	}
	p[8] = ttl
	p[9] = proto
	s, d := src.As4(), dst.As4()
	copy(p[12:16], s[:])
	copy(p[16:20], d[:])
	copy(p[20:hl], o.Options)
	put16(p[10:12], Checksum1071(p[:hl]))
	copy(p[hl:], payload)
	return p
}

// IP6 builds an IPv6 packet; payloadLen -1 = computed.
func IP6(src, dst netip.Addr, next byte, hop byte, payload []byte, payloadLen int) []byte {
	p := make([]byte, 40+len(payload))
	p[0] = 0x60
	if payloadLen < 0 {
		payloadLen = len(payload)
	}
	put16(p[4:6], uint16(payloadLen))
	p[6] = next
	p[7] = hop
	s, d := src.As16(), dst.As16()
	copy(p[8:24], s[:])
	copy(p[24:40], d[:])
	copy(p[40:], payload)
	return p
}

// UDP builds a UDP datagram (checksum 0).
func UDP(sport, dport uint16, payload []byte) []byte {
	p := make([]byte, 8+len(payload))
	put16(p[0:2], sport)
	put16(p[2:4], dport)
	put16(p[4:6], uint16(8+len(payload)))
	copy(p[8:], payload)
	return p
}

// TCP builds a TCP segment; doff in 32 bit words (0 = 5).
func TCP(sport, dport uint16, seq, ack uint32, doff int, flags byte, payload []byte) []byte {
	if doff == 0 {
		doff = 5
	}
	hl := doff * 4
	if hl < 20 {
		hl = 20
	}
	p := make([]byte, hl+len(payload))
	put16(p[0:2], sport)
	put16(p[2:4], dport)
	put32(p[4:8], seq)
	put32(p[8:12], ack)
	p[12] = byte(doff << 4)
	p[13] = flags
	put16(p[14:16], 0x2000)
	copy(p[hl:], payload)
	return p
}

// ARP builds a 28 byte ARP message.
func ARP(op uint16, sha []byte, spa netip.Addr, tha []byte, tpa netip.Addr) []byte {
	p := make([]byte, 28)
	put16(p[0:2], 1)
	put16(p[2:4], 0x0800)
	p[4], p[5] = 6, 4
	put16(p[6:8], op)
	copy(p[8:14], sha)
	a := spa.As4()
	copy(p[14:18], a[:])
	copy(p[18:24], tha)
	a = tpa.As4()
	copy(p[24:28], a[:])
	return p
}

// ICMP4 builds an ICMPv4 message with checksum.
func ICMP4(typ, code byte, rest [4]byte, body []byte) []byte {
	p := make([]byte, 8+len(body))
	p[0], p[1] = typ, code
	copy(p[4:8], rest[:])
	copy(p[8:], body)
	put16(p[2:4], Checksum1071(p))
	return p
}

// ICMP6 builds an ICMPv6 message with the pseudo header checksum.
func ICMP6(src, dst netip.Addr, typ, code byte, body []byte) []byte {
	p := make([]byte, 4+len(body))
	p[0], p[1] = typ, code
	copy(p[4:], body)
	put16(p[2:4], Checksum1071(ICMP6Pseudo(src.As16(), dst.As16(), p, 58)))
	return p
}

// Echo builds the rest-of-header + data of an echo message body (id, seq, data) for ICMP6 (body) use.
func EchoBody(id, seq uint16, data []byte) []byte {
	b := make([]byte, 4+len(data))
	put16(b[0:2], id)
	put16(b[2:4], seq)
	copy(b[4:], data)
	return b
}

// NDPOption builds one NDP option; length in units of 8 bytes is derived from the value (padded).
func NDPOption(typ byte, value []byte) []byte {
	n := (2 + len(value) + 7) / 8
	o := make([]byte, n*8)
	o[0] = typ
	o[1] = byte(n)
	copy(o[2:], value)
	return o
}

// RA builds a router advertisement body (after the 4 byte ICMPv6 header).
func RA(hop byte, flags byte, lifetime uint16, reach, retrans uint32, options []byte) []byte {
	b := make([]byte, 12+len(options))
	b[0] = hop
	b[1] = flags
	put16(b[2:4], lifetime)
	put32(b[4:8], reach)
	put32(b[8:12], retrans)
	copy(b[12:], options)
	return b
}

// NS / NA bodies (after the 4 byte ICMPv6 header).
func NS(target netip.Addr, options []byte) []byte {
	b := make([]byte, 20+len(options))
	t := target.As16()
	copy(b[4:20], t[:])
	copy(b[20:], options)
	return b
}

func NA(flags byte, target netip.Addr, options []byte) []byte {
	b := make([]byte, 20+len(options))
	b[0] = flags
	t := target.As16()
	copy(b[4:20], t[:])
	copy(b[20:], options)
	return b
}

// DHCP4Msg builds a BOOTP/DHCP message.
type DHCP4Msg struct {
	Op      byte
	XID     uint32
	Flags   uint16
	CIAddr  netip.Addr
	YIAddr  netip.Addr
	CHAddr  []byte
	Options [][2][]byte // (code, value) in order
	NoEnd   bool
	Pad     int
}

func (m DHCP4Msg) Bytes() []byte {
	p := make([]byte, 240)
	p[0] = m.Op
	p[1] = 1
	p[2] = 6
	put32(p[4:8], m.XID)
	put16(p[10:12], m.Flags)
	if m.CIAddr.Is4() {
		a := m.CIAddr.As4()
		copy(p[12:16], a[:])
	}
	if m.YIAddr.Is4() {
		a := m.YIAddr.As4()
		copy(p[16:20], a[:])
	}
	copy(p[28:34], m.CHAddr)
	copy(p[236:240], []byte{99, 130, 83, 99})
	for _, o := range m.Options {
		p = append(p, o[0][0], byte(len(o[1])))
		p = append(p, o[1]...)
	}
	if !m.NoEnd {
		p = append(p, 255)
	}
	for i := 0; i < m.Pad; i++ {
		p = append(p, 0)
	}
	return p
}

// DNSName encodes a dotted name as labels.
func DNSName(name string) []byte {
	var out []byte
	start := 0
	for i := 0; i <= len(name); i++ {
		if i == len(name) || name[i] == '.' {
			if i > start {
				out = append(out, byte(i-start))
				out = append(out, name[start:i]...)
			}
			start = i + 1
		}
	}
	return append(out, 0)
}

// DNSHeader builds the 12 byte header.
func DNSHeader(id, flags, qd, an, ns, ar uint16) []byte {
	h := make([]byte, 12)
	put16(h[0:2], id)
	put16(h[2:4], flags)
	put16(h[4:6], qd)
	put16(h[6:8], an)
	put16(h[8:10], ns)
	put16(h[10:12], ar)
	return h
}

// DNSQuestion appends name, type, class.
func DNSQuestion(name []byte, typ, class uint16) []byte {
	q := append([]byte{}, name...)
	q = append(q, byte(typ>>8), byte(typ), byte(class>>8), byte(class))
	return q
}

// DNSRR builds a resource record.
func DNSRR(name []byte, typ, class uint16, ttl uint32, rdata []byte) []byte {
	r := append([]byte{}, name...)
	r = append(r, byte(typ>>8), byte(typ), byte(class>>8), byte(class))
	r = append(r, byte(ttl>>24), byte(ttl>>16), byte(ttl>>8), byte(ttl))
	r = append(r, byte(len(rdata)>>8), byte(len(rdata)))
	r = append(r, rdata...)
	return r
}
