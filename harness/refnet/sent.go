package refnet

import (
	"bytes"
	"fmt"
	"net/netip"
)

// SentInfo is the reference decode of a frame emitted by the library.
type SentInfo struct {
	Kind     string // arp, icmp4-echo, icmp6-echo, ns, na, rs, ra, dhcp4, udp4, udp6, other
	DstMAC   [6]byte
	SrcMAC   [6]byte
	SrcIP    netip.Addr
	DstIP    netip.Addr
	SrcPort  uint16
	DstPort  uint16
	HopLimit int
	// ARP
	ARPOp  uint16
	ARPSha [6]byte
	ARPSpa netip.Addr
	ARPTha [6]byte
	ARPTpa netip.Addr
	// ICMP
	ICMPType byte
	EchoID   uint16
	EchoSeq  uint16
	// NDP
	Target  netip.Addr
	NAFlags byte
	OptTLLA []byte
	OptSLLA []byte
	// router advertisement: every prefix information option ("prefix/len") and every RDNSS server, in order
	RAPrefixes []string
	RARDNSS    []string
	// DHCP
	DHCP     *DHCPInfo
	UDPBody  []byte
	Problems []string
}

// DHCPInfo is a decoded DHCP message.
type DHCPInfo struct {
	Op      byte
	XID     []byte
	Flags   uint16
	CIAddr  netip.Addr
	YIAddr  netip.Addr
	CHAddr  []byte
	Options map[byte][]byte
	Order   []byte
	MsgType byte
	HasEnd  bool
}

// ParseDHCP decodes a DHCP message (independent implementation).
func ParseDHCP(b []byte) (*DHCPInfo, string) {
	if len(b) < 240 {
		return nil, "dhcp message shorter than 240 bytes"
	}
	if !bytes.Equal(b[236:240], []byte{99, 130, 83, 99}) {
		return nil, "dhcp magic cookie missing"
	}
	d := &DHCPInfo{Op: b[0], XID: append([]byte{}, b[4:8]...), Flags: be16(b[10:12]), CIAddr: netip.AddrFrom4([4]byte(b[12:16])),
		YIAddr: netip.AddrFrom4([4]byte(b[16:20])), CHAddr: append([]byte{}, b[28:34]...), Options: map[byte][]byte{}}
	if b[1] != 1 || b[2] != 6 {
		return d, "dhcp htype/hlen not ethernet"
	}
	o := b[240:]
	i := 0
	for i < len(o) {
		if o[i] == 0 {
			i++
			continue
		}
		if o[i] == 255 {
			d.HasEnd = true
			break
		}
		if i+1 >= len(o) || i+2+int(o[i+1]) > len(o) {
			return d, "dhcp option area truncated"
		}
		if _, dup := d.Options[o[i]]; dup {
			return d, fmt.Sprintf("dhcp option %d repeated", o[i])
		}
		d.Options[o[i]] = append([]byte{}, o[i+2:i+2+int(o[i+1])]...)
		d.Order = append(d.Order, o[i])
		i += 2 + int(o[i+1])
	}
	if !d.HasEnd {
		return d, "dhcp end option missing"
	}
	if t, ok := d.Options[53]; !ok || len(t) != 1 {
		return d, "dhcp message type option missing"
	} else {
		d.MsgType = t[0]
	}
	return d, ""
}

// ndpOptions validates an NDP option area and returns (type -> first value).
func ndpOptions(b []byte) (map[byte][]byte, string) {
	m := map[byte][]byte{}
	for len(b) > 0 {
		if len(b) < 2 {
			return m, "ndp option header truncated"
		}
		l := int(b[1]) * 8
		if l == 0 {
			return m, "ndp option with length 0"
		}
		if l > len(b) {
			return m, "ndp option exceeds the message"
		}
		if _, ok := m[b[0]]; !ok {
			m[b[0]] = b[2:l]
		}
		b = b[l:]
	}
	return m, ""
}

// DecodeSent validates a frame written by the library; hostMAC is the interface address.
func DecodeSent(f []byte, hostMAC []byte) SentInfo {
	s := SentInfo{Kind: "other"}
	bad := func(format string, args ...any) { s.Problems = append(s.Problems, fmt.Sprintf(format, args...)) }
	if len(f) < 14 {
		bad("frame shorter than an ethernet header (%d bytes)", len(f))
		return s
	}
	copy(s.DstMAC[:], f[0:6])
	copy(s.SrcMAC[:], f[6:12])
	if !bytes.Equal(f[6:12], hostMAC) {
		bad("ethernet source %x is not the host interface MAC %x", f[6:12], hostMAC)
	}
	et := be16(f[12:14])
	p := f[14:]
	switch et {
	case 0x0806:
		s.Kind = "arp"
		if len(p) < 28 {
			bad("arp message truncated (%d bytes)", len(p))
			return s
		}
		if be16(p[0:2]) != 1 || be16(p[2:4]) != 0x0800 || p[4] != 6 || p[5] != 4 {
			bad("arp header htype=%d ptype=%#x hlen=%d plen=%d, want 1/0x800/6/4", be16(p[0:2]), be16(p[2:4]), p[4], p[5])
		}
		s.ARPOp = be16(p[6:8])
		if s.ARPOp != 1 && s.ARPOp != 2 {
			bad("arp operation %d", s.ARPOp)
		}
		copy(s.ARPSha[:], p[8:14])
		s.ARPSpa = netip.AddrFrom4([4]byte(p[14:18]))
		copy(s.ARPTha[:], p[18:24])
		s.ARPTpa = netip.AddrFrom4([4]byte(p[24:28]))
		for _, x := range p[28:] {
			if x != 0 {
				bad("non zero bytes after the arp message")
				break
			}
		}
	case 0x0800:
		if len(p) < 20 {
			bad("ipv4 header truncated")
			return s
		}
		ihl := int(p[0]&0x0f) * 4
		tot := int(be16(p[2:4]))
		if p[0]>>4 != 4 || ihl < 20 || ihl > len(p) {
			bad("ipv4 version/ihl %#x", p[0])
			return s
		}
		if tot < ihl || tot > len(p) {
			bad("ipv4 total length %d inconsistent with the %d byte frame payload", tot, len(p))
			return s
		}
		if tot != len(p) {
			for _, x := range p[tot:] {
				if x != 0 {
					bad("ipv4 total length %d but %d bytes follow the ethernet header", tot, len(p))
					break
				}
			}
		}
		if !VerifiesIP4Header(p[:ihl]) {
			bad("ipv4 header checksum does not verify")
		}
		// "a complete packet": more-fragments or a fragment offset make it a piece of a datagram for any receiver
		// (DF is allowed); the reserved bit must be zero (RFC 791)
		if ff := be16(p[6:8]); ff&0x3fff != 0 {
			bad("ipv4 header says fragment (flags/offset %#04x, id %#04x): not a complete datagram", ff, be16(p[4:6]))
		} else if ff&0x8000 != 0 {
			bad("ipv4 reserved flag set (flags/offset %#04x)", ff)
		}
		s.SrcIP = netip.AddrFrom4([4]byte(p[12:16]))
		s.DstIP = netip.AddrFrom4([4]byte(p[16:20]))
		s.HopLimit = int(p[8])
		u := p[ihl:tot]
		switch p[9] {
		case 1:
			s.Kind = "icmp4"
			if len(u) < 8 {
				bad("icmpv4 message truncated")
				return s
			}
			if Sum1071(u) != 0xffff {
				bad("icmpv4 checksum does not verify")
			}
			s.ICMPType = u[0]
			if u[0] == 8 || u[0] == 0 {
				s.Kind = "icmp4-echo"
				s.EchoID, s.EchoSeq = be16(u[4:6]), be16(u[6:8])
			}
		case 17:
			s.Kind = "udp4"
			s.udp(u, bad)
		}
	case 0x86dd:
		if len(p) < 40 {
			bad("ipv6 header truncated")
			return s
		}
		pl := int(be16(p[4:6]))
		if p[0]>>4 != 6 {
			bad("ipv6 version %d", p[0]>>4)
		}
		if 40+pl != len(p) {
			bad("ipv6 payload length %d inconsistent with %d bytes after the header", pl, len(p)-40)
			if 40+pl > len(p) {
				return s
			}
		}
		s.SrcIP = netip.AddrFrom16([16]byte(p[8:24]))
		s.DstIP = netip.AddrFrom16([16]byte(p[24:40]))
		s.HopLimit = int(p[7])
		if s.DstIP.IsMulticast() {
			d := s.DstIP.As16()
			want := [6]byte{0x33, 0x33, d[12], d[13], d[14], d[15]}
			if s.DstMAC != want {
				bad("ipv6 multicast destination %s sent to ethernet address %x, want %x", s.DstIP, s.DstMAC[:], want[:])
			}
		}
		u := p[40 : 40+pl]
		switch p[6] {
		case 58:
			s.Kind = "icmp6"
			if len(u) < 4 {
				bad("icmpv6 message truncated")
				return s
			}
			if Sum1071(ICMP6Pseudo(s.SrcIP.As16(), s.DstIP.As16(), u, 58)) != 0xffff {
				bad("icmpv6 checksum does not verify")
			}
			s.ICMPType = u[0]
			ndp := func(min int) ([]byte, bool) {
				if len(u) < min {
					bad("icmpv6 type %d message is %d bytes, minimum %d", u[0], len(u), min)
					return nil, false
				}
				// the statement demands hop limit 255 for link-local neighbour discovery
				if (s.DstIP.IsLinkLocalUnicast() || s.DstIP.IsLinkLocalMulticast()) && s.HopLimit != 255 {
					bad("link-local neighbour discovery message with hop limit %d, must be 255", s.HopLimit)
				}
				return u[min:], true
			}
			switch u[0] {
			case 128, 129:
				s.Kind = "icmp6-echo"
				if len(u) < 8 {
					bad("echo message truncated")
					return s
				}
				s.EchoID, s.EchoSeq = be16(u[4:6]), be16(u[6:8])
				if (s.DstIP.IsLinkLocalUnicast() || s.DstIP.IsLinkLocalMulticast()) && s.HopLimit != 255 {
					bad("link-local icmpv6 sent with hop limit %d", s.HopLimit)
				}
			case 133:
				s.Kind = "rs"
				if o, ok := ndp(8); ok {
					m, e := ndpOptions(o)
					if e != "" {
						bad("router solicitation: %s", e)
					}
					s.OptSLLA = m[1]
				}
			case 134:
				s.Kind = "ra"
				if o, ok := ndp(16); ok {
					m, e := ndpOptions(o)
					if e != "" {
						bad("router advertisement: %s", e)
					}
					s.OptSLLA = m[1]
					for b := o; len(b) >= 2 && int(b[1])*8 <= len(b) && b[1] != 0; b = b[int(b[1])*8:] {
						switch {
						case b[0] == 3 && b[1] == 4:
							s.RAPrefixes = append(s.RAPrefixes, fmt.Sprintf("%s/%d", netip.AddrFrom16([16]byte(b[16:32])), b[2]))
						case b[0] == 25 && b[1] >= 3:
							for a := b[8 : int(b[1])*8]; len(a) >= 16; a = a[16:] {
								s.RARDNSS = append(s.RARDNSS, netip.AddrFrom16([16]byte(a[:16])).String())
							}
						}
					}
				}
			case 135:
				s.Kind = "ns"
				if o, ok := ndp(24); ok {
					s.Target = netip.AddrFrom16([16]byte(u[8:24]))
					m, e := ndpOptions(o)
					if e != "" {
						bad("neighbour solicitation: %s", e)
					}
					s.OptSLLA = m[1]
					if _, wrong := m[2]; wrong {
						bad("neighbour solicitation carries a target link-layer address option (type 2)")
					}
				}
			case 136:
				s.Kind = "na"
				if o, ok := ndp(24); ok {
					s.NAFlags = u[4]
					s.Target = netip.AddrFrom16([16]byte(u[8:24]))
					m, e := ndpOptions(o)
					if e != "" {
						bad("neighbour advertisement: %s", e)
					}
					s.OptTLLA = m[2]
				}
			}
		case 17:
			s.Kind = "udp6"
			s.udp(u, bad)
		}
	}
	return s
}

func (s *SentInfo) udp(u []byte, bad func(string, ...any)) {
	if len(u) < 8 {
		bad("udp header truncated")
		return
	}
	s.SrcPort, s.DstPort = be16(u[0:2]), be16(u[2:4])
	if int(be16(u[4:6])) != len(u) {
		bad("udp length field %d inconsistent with the %d byte datagram", be16(u[4:6]), len(u))
	}
	s.UDPBody = u[8:]
	if s.DstPort == 67 || s.DstPort == 68 {
		s.Kind = "dhcp4"
		d, e := ParseDHCP(u[8:])
		if e != "" {
			bad("%s", e)
		}
		s.DHCP = d
	}
}
