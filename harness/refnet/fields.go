package refnet

import "net/netip"

// Field extractors written from the RFC layouts. Each returns a normalised value:
// integers as int64, booleans as bool, addresses as string, byte ranges as []byte (nil = absent).

type FieldRef func(b []byte) any

func i(v int) any       { return int64(v) }
func ip4s(b []byte) any { return netip.AddrFrom4([4]byte(b[0:4])).String() }
func ip6s(b []byte) any { return netip.AddrFrom16([16]byte(b[0:16])).String() }
func bs(b []byte) any   { return append([]byte{}, b...) }

// Fields maps view type -> getter name -> reference.
var Fields = map[string]map[string]FieldRef{
	"Ether": {
		"Dst":       func(b []byte) any { return bs(b[0:6]) },
		"Src":       func(b []byte) any { return bs(b[6:12]) },
		"EtherType": func(b []byte) any { return i(int(be16(b[12:14]))) },
		"HeaderLen": func(b []byte) any { return i(EtherHeaderLen(be16(b[12:14]))) },
	},
	"IP4": { // RFC 791
		"IHL":               func(b []byte) any { return i(int(b[0]&0x0f) * 4) },
		"Version":           func(b []byte) any { return i(int(b[0] >> 4)) },
		"TOS":               func(b []byte) any { return i(int(b[1])) },
		"TotalLen":          func(b []byte) any { return i(int(be16(b[2:4]))) },
		"ID":                func(b []byte) any { return i(int(be16(b[4:6]))) },
		"Flags":             func(b []byte) any { return i(int(b[6] & 0xe0)) },
		"FlagDontFragment":  func(b []byte) any { return b[6]&0x40 != 0 },
		"FlagMoreFragments": func(b []byte) any { return b[6]&0x20 != 0 },
		"Fragment":          func(b []byte) any { return i(int(be16(b[6:8]) & 0x1fff)) },
		"TTL":               func(b []byte) any { return i(int(b[8])) },
		"Protocol":          func(b []byte) any { return i(int(b[9])) },
		"Checksum":          func(b []byte) any { return i(int(be16(b[10:12]))) },
		"Src":               func(b []byte) any { return ip4s(b[12:16]) },
		"Dst":               func(b []byte) any { return ip4s(b[16:20]) },
		"Payload":           func(b []byte) any { return bs(b[int(b[0]&0x0f)*4 : be16(b[2:4])]) },
	},
	"IP6": { // RFC 8200
		"Version":      func(b []byte) any { return i(int(b[0] >> 4)) },
		"TrafficClass": func(b []byte) any { return i(int(b[0]&0x0f)<<4 | int(b[1]>>4)) },
		"FlowLabel":    func(b []byte) any { return i(int(b[1]&0x0f)<<16 | int(b[2])<<8 | int(b[3])) },
		"PayloadLen":   func(b []byte) any { return i(int(be16(b[4:6]))) },
		"NextHeader":   func(b []byte) any { return i(int(b[6])) },
		"HopLimit":     func(b []byte) any { return i(int(b[7])) },
		"Src":          func(b []byte) any { return ip6s(b[8:24]) },
		"Dst":          func(b []byte) any { return ip6s(b[24:40]) },
		"Payload":      func(b []byte) any { return bs(b[40:]) },
		"HeaderLen":    func(b []byte) any { return i(40) },
	},
	"UDP": { // RFC 768
		"SrcPort":   func(b []byte) any { return i(int(be16(b[0:2]))) },
		"DstPort":   func(b []byte) any { return i(int(be16(b[2:4]))) },
		"Len":       func(b []byte) any { return i(int(be16(b[4:6]))) },
		"Checksum":  func(b []byte) any { return i(int(be16(b[6:8]))) },
		"Payload":   func(b []byte) any { return bs(b[8:]) },
		"HeaderLen": func(b []byte) any { return i(8) },
	},
	"TCP": { // RFC 9293
		"SrcPort":   func(b []byte) any { return i(int(be16(b[0:2]))) },
		"DstPort":   func(b []byte) any { return i(int(be16(b[2:4]))) },
		"Seq":       func(b []byte) any { return i(int(be32(b[4:8]))) },
		"Ack":       func(b []byte) any { return i(int(be32(b[8:12]))) },
		"HeaderLen": func(b []byte) any { return i(int(b[12]>>4) * 4) },
		"NS":        func(b []byte) any { return b[12]&0x01 != 0 },
		"FIN":       func(b []byte) any { return b[13]&0x01 != 0 },
		"SYN":       func(b []byte) any { return b[13]&0x02 != 0 },
		"RST":       func(b []byte) any { return b[13]&0x04 != 0 },
		"PSH":       func(b []byte) any { return b[13]&0x08 != 0 },
		"ACK":       func(b []byte) any { return b[13]&0x10 != 0 },
		"URG":       func(b []byte) any { return b[13]&0x20 != 0 },
		"ECE":       func(b []byte) any { return b[13]&0x40 != 0 },
		"CWR":       func(b []byte) any { return b[13]&0x80 != 0 },
		"Window":    func(b []byte) any { return i(int(be16(b[14:16]))) },
		"Checksum":  func(b []byte) any { return i(int(be16(b[16:18]))) },
		"Urgent":    func(b []byte) any { return i(int(be16(b[18:20]))) },
		"Payload":   func(b []byte) any { return bs(b[int(b[12]>>4)*4:]) },
	},
	"ARP": { // RFC 826
		"HType":     func(b []byte) any { return i(int(be16(b[0:2]))) },
		"Proto":     func(b []byte) any { return i(int(be16(b[2:4]))) },
		"HLen":      func(b []byte) any { return i(int(b[4])) },
		"PLen":      func(b []byte) any { return i(int(b[5])) },
		"Operation": func(b []byte) any { return i(int(be16(b[6:8]))) },
		"SrcMAC":    func(b []byte) any { return bs(b[8:14]) },
		"SrcIP":     func(b []byte) any { return ip4s(b[14:18]) },
		"DstMAC":    func(b []byte) any { return bs(b[18:24]) },
		"DstIP":     func(b []byte) any { return ip4s(b[24:28]) },
	},
	"ICMP": { // RFC 792 / 4443
		"Type":         func(b []byte) any { return i(int(b[0])) },
		"Code":         func(b []byte) any { return i(int(b[1])) },
		"Checksum":     func(b []byte) any { return i(int(be16(b[2:4]))) },
		"RestOfHeader": func(b []byte) any { return bs(b[4:8]) },
		"Payload":      func(b []byte) any { return bs(b[8:]) },
	},
	"ICMPEcho": {
		"Type":     func(b []byte) any { return i(int(b[0])) },
		"Code":     func(b []byte) any { return i(int(b[1])) },
		"Checksum": func(b []byte) any { return i(int(be16(b[2:4]))) },
		"EchoID":   func(b []byte) any { return i(int(be16(b[4:6]))) },
		"EchoSeq":  func(b []byte) any { return i(int(be16(b[6:8]))) },
		"EchoData": func(b []byte) any { return bs(b[8:]) },
	},
	"DHCP4": { // RFC 2131
		"OpCode":    func(b []byte) any { return i(int(b[0])) },
		"HType":     func(b []byte) any { return i(int(b[1])) },
		"HLen":      func(b []byte) any { return i(int(b[2])) },
		"Hops":      func(b []byte) any { return i(int(b[3])) },
		"XId":       func(b []byte) any { return bs(b[4:8]) },
		"Secs":      func(b []byte) any { return i(int(be16(b[8:10]))) },
		"Flags":     func(b []byte) any { return i(int(be16(b[10:12]))) },
		"Broadcast": func(b []byte) any { return b[10]&0x80 != 0 },
		"CIAddr":    func(b []byte) any { return ip4s(b[12:16]) },
		"YIAddr":    func(b []byte) any { return ip4s(b[16:20]) },
		"SIAddr":    func(b []byte) any { return ip4s(b[20:24]) },
		"GIAddr":    func(b []byte) any { return ip4s(b[24:28]) },
		"CHAddr":    func(b []byte) any { return bs(b[28:34]) },
		"Cookie":    func(b []byte) any { return bs(b[236:240]) },
		"Options":   func(b []byte) any { return bs(b[240:]) },
	},
	"DNS": { // RFC 1035
		"TransactionID": func(b []byte) any { return i(int(be16(b[0:2]))) },
		"QR":            func(b []byte) any { return b[2]&0x80 != 0 },
		"OpCode":        func(b []byte) any { return i(int(b[2]>>3) & 0x0f) },
		"AA":            func(b []byte) any { return b[2]&0x04 != 0 },
		"TC":            func(b []byte) any { return b[2]&0x02 != 0 },
		"RD":            func(b []byte) any { return b[2]&0x01 != 0 },
		"RA":            func(b []byte) any { return b[3]&0x80 != 0 },
		"Z":             func(b []byte) any { return i(int(b[3]>>4) & 0x07) },
		"ResponseCode":  func(b []byte) any { return i(int(b[3]) & 0x0f) },
		"QDCount":       func(b []byte) any { return i(int(be16(b[4:6]))) },
		"ANCount":       func(b []byte) any { return i(int(be16(b[6:8]))) },
		"NSCount":       func(b []byte) any { return i(int(be16(b[8:10]))) },
		"ARCount":       func(b []byte) any { return i(int(be16(b[10:12]))) },
	},
	"ICMP6RouterAdvertisement": { // RFC 4861 4.2, RFC 4191
		"Type":                 func(b []byte) any { return i(int(b[0])) },
		"Code":                 func(b []byte) any { return i(int(b[1])) },
		"Checksum":             func(b []byte) any { return i(int(be16(b[2:4]))) },
		"CurrentHopLimit":      func(b []byte) any { return i(int(b[4])) },
		"ManagedConfiguration": func(b []byte) any { return b[5]&0x80 != 0 },
		"OtherConfiguration":   func(b []byte) any { return b[5]&0x40 != 0 },
		"HomeAgent":            func(b []byte) any { return b[5]&0x20 != 0 },
		"Preference":           func(b []byte) any { return i(int(b[5]&0x18) >> 3) },
		"ProxyFlag":            func(b []byte) any { return b[5]&0x04 != 0 },
		"Flags":                func(b []byte) any { return i(int(b[5])) },
		"Lifetime":             func(b []byte) any { return i(int(be16(b[6:8]))) },
		"ReachableTime":        func(b []byte) any { return i(int(be32(b[8:12]))) },
		"RetransmitTimer":      func(b []byte) any { return i(int(be32(b[12:16]))) },
	},
	"ICMP6NeighborAdvertisement": { // RFC 4861 4.4
		"Type":          func(b []byte) any { return i(int(b[0])) },
		"Code":          func(b []byte) any { return i(int(b[1])) },
		"Checksum":      func(b []byte) any { return i(int(be16(b[2:4]))) },
		"Router":        func(b []byte) any { return b[4]&0x80 != 0 },
		"Solicited":     func(b []byte) any { return b[4]&0x40 != 0 },
		"Override":      func(b []byte) any { return b[4]&0x20 != 0 },
		"TargetAddress": func(b []byte) any { return ip6s(b[8:24]) },
		"TargetLLA": func(b []byte) any {
			if len(b) >= 32 && b[24] == 2 && b[25] == 1 {
				return bs(b[26:32])
			}
			return []byte(nil)
		},
	},
	"ICMP6NeighborSolicitation": { // RFC 4861 4.3
		"Type":          func(b []byte) any { return i(int(b[0])) },
		"Code":          func(b []byte) any { return i(int(b[1])) },
		"Checksum":      func(b []byte) any { return i(int(be16(b[2:4]))) },
		"TargetAddress": func(b []byte) any { return ip6s(b[8:24]) },
		"SourceLLA": func(b []byte) any {
			if len(b) >= 32 && b[24] == 1 && b[25] == 1 {
				return bs(b[26:32])
			}
			return []byte(nil)
		},
	},
	"ICMP6Redirect": { // RFC 4861 4.5
		"Type":          func(b []byte) any { return i(int(b[0])) },
		"Code":          func(b []byte) any { return i(int(b[1])) },
		"Checksum":      func(b []byte) any { return i(int(be16(b[2:4]))) },
		"TargetAddress": func(b []byte) any { return bs(b[8:24]) },
		"DstAddress":    func(b []byte) any { return bs(b[24:40]) },
		"TargetLinkLayerAddr": func(b []byte) any {
			if len(b) >= 48 && b[40] == 2 && b[41] == 1 {
				return bs(b[42:48])
			}
			return []byte(nil)
		},
	},
	"ICMP6RouterSolicitation": { // RFC 4861 4.1: 4 byte header, 4 reserved, options
		"Type":     func(b []byte) any { return i(int(b[0])) },
		"Code":     func(b []byte) any { return i(int(b[1])) },
		"Checksum": func(b []byte) any { return i(int(be16(b[2:4]))) },
		"SourceLLA": func(b []byte) any {
			if len(b) >= 16 && b[8] == 1 && b[9] == 1 {
				return bs(b[10:16])
			}
			return []byte(nil)
		},
	},
	"SNAP": {
		"DSAP":           func(b []byte) any { return i(int(b[0])) },
		"SSAP":           func(b []byte) any { return i(int(b[1])) },
		"Control":        func(b []byte) any { return i(int(b[2])) },
		"OrganisationID": func(b []byte) any { return bs(b[3:6]) },
		"EtherType":      func(b []byte) any { return i(int(be16(b[6:8]))) },
		"Payload":        func(b []byte) any { return bs(b[8:]) },
	},
	"LLC": {
		"DSAP":    func(b []byte) any { return i(int(b[0])) },
		"SSAP":    func(b []byte) any { return i(int(b[1])) },
		"Control": func(b []byte) any { return i(int(b[2])) },
	},
	"EthernetPause": {
		"Opcode":   func(b []byte) any { return i(int(be16(b[0:2]))) },
		"Duration": func(b []byte) any { return i(int(be16(b[2:4]))) },
	},
	"IEEE1905": {
		"Version":    func(b []byte) any { return i(int(b[0])) },
		"Type":       func(b []byte) any { return i(int(be16(b[2:4]))) },
		"ID":         func(b []byte) any { return i(int(be16(b[4:6]))) },
		"FragmentID": func(b []byte) any { return i(int(b[6])) },
		"Flags":      func(b []byte) any { return i(int(b[7])) },
		"TLV":        func(b []byte) any { return bs(b[8:]) },
	},
}
