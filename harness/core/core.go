// Package core holds the result/evidence plumbing shared by every property driver of the harness.
package core

import (
	"encoding/binary"
	"encoding/json"
	"fmt"
	"hash/fnv"
	"os"
	"sort"
	"sync/atomic"
	"syscall"
)

// Violation is one property violation found by a worker.
type Violation struct {
	Sig    string          `json:"sig"`    // <oracle>|<site>|<class> : stable signature used for known findings
	What   string          `json:"what"`   // human readable
	Replay json.RawMessage `json:"replay"` // everything needed to re-execute without the explorer
}

// Job is one worker invocation planned by the harness for the driver.
type Job struct {
	Args    []string `json:"args"`
	Race    bool     `json:"race"`
	Timeout int      `json:"timeout_s"`
	Bin     string   `json:"bin,omitempty"` // "" = instrumented harness; "vplain" = un-instrumented binary
}

// Result is what a worker reports back to the driver.
type Result struct {
	Prop        string           `json:"prop"`
	Job         string           `json:"job"`
	Level       string           `json:"level"`
	Rule        string           `json:"rule"`
	Assumptions []string         `json:"assumptions"`
	Counters    map[string]int64 `json:"counters"`
	Samples     []any            `json:"samples"`
	Violations  []Violation      `json:"violations"`
	Exhaustive  bool             `json:"exhaustive"`
	Caps        []string         `json:"caps"`
	Notes       []string         `json:"notes"`
	HashFile    string           `json:"hash_file"`
	Bound       string           `json:"bound"`
}

// Ctx is the per-worker context handed to property drivers.
type Ctx struct {
	Prop     string
	Tier     string
	Shard    int
	NShards  int
	Job      string
	Seed     int64
	OutDir   string
	Res      *Result
	distinct map[uint64]struct{}
	vsigs    map[string]int
	progress *os.File
	MaxViol  int
	Deadline int64          // unix seconds; 0 = none (internal budget: exit 0 with exhaustive=false)
	Args     map[string]int // extra k=v arguments of the job
}

func NewCtx(prop, tier, job string, shard, nshards int, outDir string) *Ctx {
	c := &Ctx{Prop: prop, Tier: tier, Shard: shard, NShards: nshards, Job: job, OutDir: outDir,
		Res:      &Result{Prop: prop, Job: job, Counters: map[string]int64{}, Exhaustive: true},
		distinct: map[uint64]struct{}{}, vsigs: map[string]int{}, MaxViol: 3, Args: map[string]int{}}
	if outDir != "" {
		f, err := os.OpenFile(fmt.Sprintf("%s/progress-%s-%s-%d", outDir, prop, job, shard), os.O_CREATE|os.O_RDWR|os.O_TRUNC, 0o644)
		if err == nil {
			c.progress = f
		}
	}
	return c
}

func (c *Ctx) Thorough() bool { return c.Tier == "thorough" }

// Mine reports whether item i of a flat enumeration belongs to this shard.
func (c *Ctx) Mine(i int) bool { return c.NShards <= 1 || i%c.NShards == c.Shard }

// Count adds to a counter. Every call is also a sign of life for the worker's hang watchdog: on a loaded machine a
// long enumeration that only counts (no Progress call) must not be mistaken for a hang.
func (c *Ctx) Count(name string, n int64) {
	c.Res.Counters[name] += n
	ProgressTicks.Add(1)
}

// Progress records the case about to be executed so that a fatal crash of the worker is attributable.
// ProgressTicks counts Progress calls (read by the worker's hang watchdog).
var ProgressTicks atomic.Int64

func (c *Ctx) Progress(s string) {
	ProgressTicks.Add(1)
	if c.progress == nil {
		return
	}
	b := make([]byte, 512)
	copy(b, s)
	syscall.Pwrite(int(c.progress.Fd()), b, 0)
}

// Distinct adds the hash of a non-trivial case; returns true if new.
func (c *Ctx) Distinct(b []byte) bool {
	h := fnv.New64a()
	h.Write(b)
	v := h.Sum64()
	ProgressTicks.Add(1)
	if _, ok := c.distinct[v]; ok {
		return false
	}
	c.distinct[v] = struct{}{}
	return true
}

func (c *Ctx) DistinctCount() int { return len(c.distinct) }

// DistinctHash adds an already computed hash.
func (c *Ctx) DistinctHash(v uint64) { c.distinct[v] = struct{}{} }

// Sample keeps up to n samples.
func (c *Ctx) Sample(v any, n int) {
	if len(c.Res.Samples) < n {
		c.Res.Samples = append(c.Res.Samples, v)
	}
}

// Violate records a violation; at most MaxViol per signature are kept.
func (c *Ctx) Violate(sig, what string, replay any) {
	c.Res.Counters["violations"]++
	c.vsigs[sig]++
	if c.vsigs[sig] > c.MaxViol {
		return
	}
	rb, _ := json.Marshal(replay)
	c.Res.Violations = append(c.Res.Violations, Violation{Sig: sig, What: what, Replay: rb})
}

func (c *Ctx) Cap(s string) {
	c.Res.Exhaustive = false
	c.Res.Caps = append(c.Res.Caps, s)
}

func (c *Ctx) Note(s string) { c.Res.Notes = append(c.Res.Notes, s) }

// Finish writes the distinct-hash file and returns the result.
func (c *Ctx) Finish() *Result {
	if c.OutDir != "" && len(c.distinct) > 0 {
		name := fmt.Sprintf("%s/hashes-%s-%s-%d", c.OutDir, c.Prop, c.Job, c.Shard)
		keys := make([]uint64, 0, len(c.distinct))
		for k := range c.distinct {
			keys = append(keys, k)
		}
		sort.Slice(keys, func(i, j int) bool { return keys[i] < keys[j] })
		buf := make([]byte, 8*len(keys))
		for i, k := range keys {
			binary.LittleEndian.PutUint64(buf[i*8:], k)
		}
		if err := os.WriteFile(name, buf, 0o644); err == nil {
			c.Res.HashFile = name
		}
	}
	c.Res.Counters["distinct_local"] = int64(len(c.distinct))
	return c.Res
}
