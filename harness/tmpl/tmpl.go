package tmpl

import (
	"net/netip"

	"harness/refnet"
)

// MAC addresses of the closed universe (mirrored by harness/env).
var (
	HostMAC   = []byte{0x02, 0x00, 0x00, 0x00, 0x00, 0x01}
	RouterMAC = []byte{0x02, 0x00, 0x00, 0x00, 0x00, 0x02}
	MAC1      = []byte{0x02, 0x00, 0x00, 0x00, 0x01, 0x01}
	MAC2      = []byte{0x02, 0x00, 0x00, 0x00, 0x01, 0x02}
	MAC3      = []byte{0x02, 0x00, 0x00, 0x00, 0x01, 0x03}
	McastMAC  = []byte{0x01, 0x00, 0x5e, 0x00, 0x00, 0xfb}
	HostLLA   = netip.MustParseAddr("fe80::1")
	RouterLLA = netip.MustParseAddr("fe80::2")
)

// Frame templates shared by C01, C02, C08 and C16. Everything is built with the independent refnet builders.

// Tmpl is a named full length frame.
type Tmpl struct {
	Name  string
	Frame []byte
}

var (
	IP4a    = netip.MustParseAddr("192.168.0.10")
	IP4b    = netip.MustParseAddr("192.168.0.11")
	IP4off  = netip.MustParseAddr("8.8.8.8")
	IP4host = netip.MustParseAddr("192.168.0.129")
	IP4rtr  = netip.MustParseAddr("192.168.0.1")
	IP4zero = netip.MustParseAddr("0.0.0.0")
	IP4bc   = netip.MustParseAddr("255.255.255.255")
	LLA1    = netip.MustParseAddr("fe80::10")
	LLA2    = netip.MustParseAddr("fe80::11")
	GUA1    = netip.MustParseAddr("2001:db8::10")
	MC6     = netip.MustParseAddr("ff02::1")
	Bcast   = []byte{0xff, 0xff, 0xff, 0xff, 0xff, 0xff}
)

// UDP port alphabet: every port the classification table mentions plus two neutral ones.
var PortAlphabet = []uint16{443, 67, 68, 546, 547, 53, 5353, 5355, 123, 1900, 3702, 137, 138, 32412, 32414, 10001, 80, 40000, 0}

var EtherTypes = []uint16{0, 1500, 1535, 1536, 0x0800, 0x0806, 0x86dd, 0x8100, 0x88a8, 0x8808, 0x8899, 0x88cc, 0x890d, 0x893a, 0x6970, 0x880a, 0xffff}

type NamedMAC struct {
	N string
	M []byte
}

// SrcMACs is ordered: template order must be identical in every worker process.
func SrcMACs() []NamedMAC {
	return []NamedMAC{{"client", MAC1}, {"own", HostMAC}, {"router", RouterMAC}, {"mcast", McastMAC}}
}

func Pat(n int, seed byte) []byte {
	b := make([]byte, n)
	for i := range b {
		b[i] = byte(i)*7 + seed
	}
	return b
}

// DHCPDiscover builds a well formed DHCP DISCOVER payload.
func DHCPDiscover(chaddr []byte, xid uint32) []byte {
	return refnet.DHCP4Msg{Op: 1, XID: xid, CHAddr: chaddr, Options: [][2][]byte{{{53}, {1}}, {{55}, {1, 3, 6, 15}}, {{12}, []byte("host1")}}}.Bytes()
}

// FrameTemplates returns the structural frame templates of the Parse explorations.
func FrameTemplates(full bool) []Tmpl {
	var t []Tmpl
	add := func(name string, f []byte) { t = append(t, Tmpl{name, f}) }
	macs := SrcMACs()
	// (1) every EtherType x source MAC class with an opaque payload
	for _, et := range EtherTypes {
		for _, nm := range macs {
			mn, m := nm.N, nm.M
			add("eth-"+Hex4(et)+"-"+mn, refnet.Eth(Bcast, m, et, Pat(46, byte(et))))
		}
	}
	// VLAN tagged
	add("eth-8021q-ip4", refnet.EthVLAN(Bcast, MAC1, 1, 0x0800, refnet.IP4(IP4a, IP4b, 17, refnet.UDP(53, 53, Pat(20, 1)), refnet.IP4Opt{})))
	add("eth-8021ad-ip4", refnet.EthVLAN(Bcast, MAC1, 2, 0x0800, refnet.IP4(IP4a, IP4b, 17, refnet.UDP(53, 53, Pat(20, 1)), refnet.IP4Opt{})))
	// (2) IPv4: IHL x TotalLen around the real length, protocols
	udp := refnet.UDP(40000, 40001, Pat(12, 3))
	for _, ihl := range []int{0, 4, 5, 6, 15} {
		physical := 20
		if ihl > 5 {
			physical = ihl * 4
		}
		L := physical + len(udp)
		for _, tot := range []int{0, 4*ihl - 1, 4 * ihl, L - 1, L, L + 1, 65535} {
			if tot < 0 {
				continue
			}
			o := refnet.IP4Opt{IHL: ihl, TotalLen: tot}
			if ihl > 5 {
				o.Options = make([]byte, ihl*4-20)
			}
			add("ip4-ihl"+itoa(ihl)+"-tot"+itoa(tot), refnet.Eth(Bcast, MAC1, 0x0800, refnet.IP4(IP4a, IP4b, 17, udp, o)))
		}
	}
	for _, proto := range []byte{0, 1, 2, 6, 17, 58, 255} {
		for _, nm := range macs {
			mn, m := nm.N, nm.M
			add("ip4-proto"+itoa(int(proto))+"-"+mn, refnet.Eth(Bcast, m, 0x0800, refnet.IP4(IP4a, IP4b, proto, Pat(28, proto), refnet.IP4Opt{})))
		}
	}
	for _, src := range []netip.Addr{IP4a, IP4off, IP4zero, IP4host, IP4rtr, IP4bc} {
		add("ip4-src-"+src.String(), refnet.Eth(Bcast, MAC1, 0x0800, refnet.IP4(src, IP4b, 17, udp, refnet.IP4Opt{})))
	}
	// (3) IPv6: payload length x next header
	for _, nh := range []byte{0, 6, 17, 58, 59, 1} {
		body := Pat(24, nh)
		L := len(body)
		for _, pl := range []int{0, L - 1, L, L + 1, 65535} {
			add("ip6-nh"+itoa(int(nh))+"-pl"+itoa(pl), refnet.Eth(Bcast, MAC1, 0x86dd, refnet.IP6(LLA1, MC6, nh, 255, body, pl)))
		}
	}
	for _, src := range []netip.Addr{LLA1, GUA1, MC6, netip.IPv6Unspecified()} {
		for _, nm := range macs {
			mn, m := nm.N, nm.M
			add("ip6-src-"+src.String()+"-"+mn, refnet.Eth(Bcast, m, 0x86dd, refnet.IP6(src, MC6, 17, 64, udp, -1)))
		}
	}
	// (4) UDP ports (destination over the whole alphabet, a few sources), both families
	for _, dp := range PortAlphabet {
		for _, sp := range []uint16{40000, 53, 443, 5353} {
			if !full && sp != 40000 && dp != 53 && dp != 67 {
				continue
			}
			u := refnet.UDP(sp, dp, Pat(16, byte(dp)))
			add("udp4-"+itoa(int(sp))+"-"+itoa(int(dp)), refnet.Eth(Bcast, MAC1, 0x0800, refnet.IP4(IP4a, IP4b, 17, u, refnet.IP4Opt{})))
			add("udp6-"+itoa(int(sp))+"-"+itoa(int(dp)), refnet.Eth(Bcast, MAC1, 0x86dd, refnet.IP6(LLA1, LLA2, 17, 64, u, -1)))
		}
	}
	// (4b) UDP length field: shorter than the header, one off, larger than the datagram
	for _, dp := range []uint16{40001, 53, 67, 5353} {
		for _, ul := range []int{0, 1, 7, 8, 9, 23, 25, 255, 65535} {
			u := refnet.UDP(40000, dp, Pat(16, byte(dp)))
			u[4], u[5] = byte(ul>>8), byte(ul)
			add("udp4-len"+itoa(ul)+"-"+itoa(int(dp)), refnet.Eth(Bcast, MAC1, 0x0800, refnet.IP4(IP4a, IP4b, 17, u, refnet.IP4Opt{})))
			add("udp6-len"+itoa(ul)+"-"+itoa(int(dp)), refnet.Eth(Bcast, MAC1, 0x86dd, refnet.IP6(LLA1, LLA2, 17, 64, u, -1)))
		}
	}
	// (4c) ARP with a hardware type, protocol type or protocol length other than Ethernet/IPv4
	for _, v := range [][3]int{{6, 0x0800, 4}, {1, 0x1000, 4}, {1, 0x0800, 16}, {0, 0, 0}, {0xffff, 0xffff, 255}} {
		a := refnet.ARP(1, MAC1, IP4a, make([]byte, 6), IP4b)
		a[0], a[1], a[2], a[3], a[5] = byte(v[0]>>8), byte(v[0]), byte(v[1]>>8), byte(v[1]), byte(v[2])
		add("arp-htype"+itoa(v[0])+"-ptype"+itoa(v[1])+"-plen"+itoa(v[2]), refnet.Eth(Bcast, MAC1, 0x0806, a))
	}
	// (5) TCP data offsets
	for _, doff := range []int{0, 4, 5, 6, 15} {
		seg := refnet.TCP(40000, 80, 1, 2, doff, 0x18, Pat(10, 9))
		add("tcp4-doff"+itoa(doff), refnet.Eth(Bcast, MAC1, 0x0800, refnet.IP4(IP4a, IP4b, 6, seg, refnet.IP4Opt{})))
		add("tcp6-doff"+itoa(doff), refnet.Eth(Bcast, MAC1, 0x86dd, refnet.IP6(LLA1, LLA2, 6, 64, seg, -1)))
	}
	// (6) ICMP types
	for _, typ := range []byte{0, 3, 5, 8, 11, 128, 129, 133, 134, 135, 136, 137, 143} {
		add("icmp4-"+itoa(int(typ)), refnet.Eth(HostMAC, MAC1, 0x0800, refnet.IP4(IP4a, IP4host, 1, refnet.ICMP4(typ, 0, [4]byte{0, 7, 0, 1}, Pat(16, typ)), refnet.IP4Opt{})))
		add("icmp6-"+itoa(int(typ)), refnet.Eth(HostMAC, MAC1, 0x86dd, refnet.IP6(LLA1, HostLLA, 58, 255, refnet.ICMP6(LLA1, HostLLA, typ, 0, Pat(28, typ)), -1)))
	}
	// (7) ARP: hlen / plen / operations / sender classes
	for _, hl := range []byte{0, 6, 255} {
		for _, pl := range []byte{0, 4} {
			a := refnet.ARP(1, MAC1, IP4a, make([]byte, 6), IP4b)
			a[4], a[5] = hl, pl
			add("arp-hl"+itoa(int(hl))+"-pl"+itoa(int(pl)), refnet.Eth(Bcast, MAC1, 0x0806, a))
		}
	}
	for _, spa := range []netip.Addr{IP4a, IP4off, IP4zero, IP4host} {
		for _, nm := range macs {
			mn, m := nm.N, nm.M
			add("arp-spa-"+spa.String()+"-"+mn, refnet.Eth(Bcast, m, 0x0806, refnet.ARP(1, m, spa, make([]byte, 6), IP4b)))
		}
	}
	add("arp-reply", refnet.Eth(MAC2, MAC1, 0x0806, refnet.ARP(2, MAC1, IP4a, MAC2, IP4b)))
	add("arp-sha-differs", refnet.Eth(Bcast, MAC1, 0x0806, refnet.ARP(1, MAC2, IP4a, make([]byte, 6), IP4b)))
	// (8) application payloads
	add("dhcp-discover", refnet.Eth(Bcast, MAC1, 0x0800, refnet.IP4(IP4zero, IP4bc, 17, refnet.UDP(68, 67, DHCPDiscover(MAC1, 0x01020304)), refnet.IP4Opt{})))
	dnsq := append(refnet.DNSHeader(7, 0x0100, 1, 0, 0, 0), refnet.DNSQuestion(refnet.DNSName("www.example.com"), 1, 1)...)
	add("dns-query", refnet.Eth(RouterMAC, MAC1, 0x0800, refnet.IP4(IP4a, IP4rtr, 17, refnet.UDP(40000, 53, dnsq), refnet.IP4Opt{})))
	// long frames
	for _, n := range []int{60, 64, 1514, 1518, 1522, 1523, 2000, 9000} {
		if n-42 < 0 {
			continue
		}
		add("long-"+itoa(n), refnet.Eth(Bcast, MAC1, 0x0800, refnet.IP4(IP4a, IP4b, 17, refnet.UDP(40000, 40001, Pat(n-42, 5)), refnet.IP4Opt{})))
	}
	return t
}

func Hex4(v uint16) string {
	const d = "0123456789abcdef"
	return string([]byte{d[v>>12&15], d[v>>8&15], d[v>>4&15], d[v&15]})
}

func itoa(i int) string {
	if i == 0 {
		return "0"
	}
	s := ""
	neg := i < 0
	if neg {
		i = -i
	}
	for i > 0 {
		s = string(rune('0'+i%10)) + s
		i /= 10
	}
	if neg {
		s = "-" + s
	}
	return s
}
