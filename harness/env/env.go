// Package env provides the closed environment of every harness: recording connection, NIC configurations,
// session construction and a race-detector-neutral event log.
package env

import (
	"errors"
	"io"
	"net"
	"net/netip"
	"os"
	"sync"
	"time"

	"github.com/irai/packet"
	"github.com/irai/packet/fastlog"
	"github.com/irai/packet/verifshim/vsched"
)

// Sent is one frame written to the recording connection.
type Sent struct {
	Data []byte
	Time int64 // virtual nanos
	Gid  int
	Seq  int
}

// Conn is a net.PacketConn that records every frame; WriteTo is a scheduling point.
type Conn struct {
	Frames []Sent
	closed bool
	seq    int
	Yield  bool // make WriteTo a scheduling point
	// Safe serialises record/Take with a real mutex (only for free running, un-scheduled use: real goroutines of the
	// handlers write concurrently); Discard counts frames instead of storing them.
	Safe    bool
	Discard bool
	Count   int
	// OnWrite, when set, observes every frame at the moment it is transmitted.
	OnWrite func(b []byte)
	// FailAt > 0: the FailAt-th WriteTo (1 based) fails with ErrInjected and sends nothing.
	FailAt int
	writes int
	mu     sync.Mutex
}

//go:norace
func (c *Conn) record(b []byte) {
	if c.Safe {
		c.mu.Lock()
		defer c.mu.Unlock()
	}
	c.Count++
	if c.Discard {
		return
	}
	d := make([]byte, len(b))
	copy(d, b)
	c.seq++
	c.Frames = append(c.Frames, Sent{Data: d, Time: vsched.NowNanos(), Gid: vsched.CurrentGid(), Seq: c.seq})
}

// WriteTo: the switches (Yield, FailAt, OnWrite) are harness state that a harness may set after the session has
// started its goroutines, hence norace.
//
//go:norace
func (c *Conn) WriteTo(b []byte, addr net.Addr) (int, error) {
	if c.Yield {
		vsched.Yield()
	}
	if c.failNow() {
		return 0, ErrInjected
	}
	if c.OnWrite != nil {
		c.OnWrite(b)
	}
	c.record(b)
	return len(b), nil
}

// ErrInjected is the error returned by a scripted write failure.
var ErrInjected = errors.New("injected write failure")

//go:norace
func (c *Conn) failNow() bool {
	c.writes++
	return c.FailAt > 0 && c.writes == c.FailAt
}

//go:norace
func (c *Conn) Take() []Sent {
	f := c.Frames
	c.Frames = nil
	return f
}

//go:norace
func (c *Conn) Len() int { return len(c.Frames) }

func (c *Conn) ReadFrom(b []byte) (int, net.Addr, error) { return 0, nil, io.EOF }
func (c *Conn) Close() error                             { return nil }
func (c *Conn) LocalAddr() net.Addr                      { return nil }
func (c *Conn) SetDeadline(t time.Time) error            { return nil }
func (c *Conn) SetReadDeadline(t time.Time) error        { return nil }
func (c *Conn) SetWriteDeadline(t time.Time) error       { return nil }

// Well known addresses of the closed universe.
var (
	HostMAC   = net.HardwareAddr{0x02, 0x00, 0x00, 0x00, 0x00, 0x01}
	RouterMAC = net.HardwareAddr{0x02, 0x00, 0x00, 0x00, 0x00, 0x02}
	MAC1      = net.HardwareAddr{0x02, 0x00, 0x00, 0x00, 0x01, 0x01}
	MAC2      = net.HardwareAddr{0x02, 0x00, 0x00, 0x00, 0x01, 0x02}
	MAC3      = net.HardwareAddr{0x02, 0x00, 0x00, 0x00, 0x01, 0x03}
	McastMAC  = net.HardwareAddr{0x01, 0x00, 0x5e, 0x00, 0x00, 0xfb}

	HostLLA   = netip.MustParseAddr("fe80::1")
	RouterLLA = netip.MustParseAddr("fe80::2")
)

// NIC builds a NICInfo: home is the LAN prefix, host and router are the last-octet offsets inside it.
func NIC(home string, hostIP, routerIP string, withLLA bool) *packet.NICInfo {
	p := netip.MustParsePrefix(home)
	n := &packet.NICInfo{
		IFI:         &net.Interface{Index: 1, MTU: 1500, Name: "veth0", HardwareAddr: HostMAC},
		HomeLAN4:    p.Masked(),
		HostAddr4:   packet.Addr{MAC: HostMAC, IP: netip.MustParseAddr(hostIP)},
		RouterAddr4: packet.Addr{MAC: RouterMAC, IP: netip.MustParseAddr(routerIP)},
	}
	if withLLA {
		n.HostLLA = netip.PrefixFrom(HostLLA, 64)
		n.RouterLLA = netip.PrefixFrom(RouterLLA, 64)
	}
	return n
}

// DefaultNIC is 192.168.0.0/24 host .129 router .1 with IPv6 link local addresses.
func DefaultNIC() *packet.NICInfo { return NIC("192.168.0.0/24", "192.168.0.129", "192.168.0.1", true) }

// Quiet silences all log output of the library (log calls still execute their formatting code).
func Quiet() {
	fastlog.DefaultIOWriter = io.Discard
	if f, err := os.OpenFile("/dev/null", os.O_WRONLY, 0); err == nil {
		os.Stdout = f
	}
}

// DirtyPool returns frame buffers filled with 0xa5 to the library's buffer pool, as if they had carried earlier frames:
// a send path that relies on a zeroed pool buffer then emits the stale bytes deterministically.
func DirtyPool() {
	var bufs []*[packet.EthMaxSize]byte
	for i := 0; i < 6; i++ {
		b := packet.EtherBufferPool.Get().(*[packet.EthMaxSize]byte)
		for j := range b {
			b[j] = 0xa5
		}
		bufs = append(bufs, b)
	}
	for _, b := range bufs {
		packet.EtherBufferPool.Put(b)
	}
}

// NewSession creates a session on a recording connection.
func NewSession(nic *packet.NICInfo, cfg packet.Config) (*packet.Session, *Conn) {
	conn := &Conn{}
	cfg.Conn = conn
	cfg.NICInfo = nic
	s, err := cfg.NewSession("")
	if err != nil {
		panic(err)
	}
	return s, conn
}
