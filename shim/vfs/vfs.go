// Package vfs replaces io/ioutil file access of the instrumented packages with an in-memory device that logs writes.
package vfs

import (
	"io"
	"os"
)

// Op is one logged device operation.
type Op struct {
	Kind string // "write"
	Name string
	Data []byte
}

var files = map[string][]byte{}
var log []Op

// Passthrough functions of io/ioutil that are not intercepted.
func ReadAll(r io.Reader) ([]byte, error) { return io.ReadAll(r) }

func Reset() { files = map[string][]byte{}; log = nil }

func ReadFile(name string) ([]byte, error) {
	b, ok := files[name]
	if !ok {
		return nil, &os.PathError{Op: "open", Path: name, Err: os.ErrNotExist}
	}
	return append([]byte(nil), b...), nil
}

func WriteFile(name string, data []byte, perm os.FileMode) error {
	c := append([]byte(nil), data...)
	log = append(log, Op{Kind: "write", Name: name, Data: c})
	files[name] = c
	return nil
}

func Rename(oldpath, newpath string) error {
	b, ok := files[oldpath]
	if !ok {
		return &os.PathError{Op: "rename", Path: oldpath, Err: os.ErrNotExist}
	}
	log = append(log, Op{Kind: "rename", Name: newpath, Data: b})
	files[newpath] = b
	delete(files, oldpath)
	return nil
}

func Remove(name string) error {
	delete(files, name)
	return nil
}

// Put installs a file image directly (harness side).
func Put(name string, data []byte) { files[name] = append([]byte(nil), data...) }

// Get returns the current image.
func Get(name string) ([]byte, bool) { b, ok := files[name]; return b, ok }

// Log returns the logged operations.
func Log() []Op { return log }
