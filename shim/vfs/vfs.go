// Package vfs replaces the file access of the instrumented packages (io/ioutil and the file functions of os) with an
// in-memory device that logs every operation, so that a harness can enumerate the states a crash can leave behind.
//
// Crash model: process crash. Operations take effect in program order; a crash can happen between any two operations
// and in the middle of a write (any byte prefix of the written data). Reordering or loss of completed but unsynced
// writes (power failure) is not modelled.
package vfs

import (
	"fmt"
	"io"
	"io/fs"
	"os"
	"sort"
	"time"
)

// Op is one logged device operation.
type Op struct {
	Kind  string // open | write | sync | close | rename | remove | truncate
	Name  string // the file operated on (the NEW name for rename)
	Old   string // rename: the previous name
	Trunc bool   // open: the file was truncated
	Off   int    // write: offset; truncate: size
	Data  []byte // write: the bytes; rename: the content that moved (informational)
}

var files = map[string][]byte{}
var log []Op
var tmpSeq int

// Passthrough functions of io/ioutil that are not intercepted.
func ReadAll(r io.Reader) ([]byte, error) { return io.ReadAll(r) }

// Reset empties the device and the log.
func Reset() { files = map[string][]byte{}; log = nil; tmpSeq = 0 }

func notExist(op, name string) error {
	return &os.PathError{Op: op, Path: name, Err: os.ErrNotExist}
}

func ReadFile(name string) ([]byte, error) {
	b, ok := files[name]
	if !ok {
		return nil, notExist("open", name)
	}
	return append([]byte(nil), b...), nil
}

// WriteFile is open(create, truncate) + write + close, like io/ioutil.WriteFile and os.WriteFile (no sync).
func WriteFile(name string, data []byte, perm os.FileMode) error {
	f, err := OpenFile(name, os.O_WRONLY|os.O_CREATE|os.O_TRUNC, perm)
	if err != nil {
		return err
	}
	if _, err = f.Write(data); err != nil {
		f.Close()
		return err
	}
	return f.Close()
}

func Rename(oldpath, newpath string) error {
	b, ok := files[oldpath]
	if !ok {
		return &os.LinkError{Op: "rename", Old: oldpath, New: newpath, Err: os.ErrNotExist}
	}
	log = append(log, Op{Kind: "rename", Name: newpath, Old: oldpath, Data: append([]byte(nil), b...)})
	files[newpath] = b
	delete(files, oldpath)
	return nil
}

func Remove(name string) error {
	if _, ok := files[name]; !ok {
		return notExist("remove", name)
	}
	log = append(log, Op{Kind: "remove", Name: name})
	delete(files, name)
	return nil
}

func RemoveAll(name string) error { Remove(name); return nil }

func Truncate(name string, size int64) error {
	b, ok := files[name]
	if !ok {
		return notExist("truncate", name)
	}
	log = append(log, Op{Kind: "truncate", Name: name, Off: int(size)})
	files[name] = resize(b, int(size))
	return nil
}

func resize(b []byte, n int) []byte {
	if n <= len(b) {
		return b[:n]
	}
	return append(b, make([]byte, n-len(b))...)
}

func MkdirAll(path string, perm os.FileMode) error { return nil }
func Mkdir(path string, perm os.FileMode) error    { return nil }
func Chmod(name string, mode os.FileMode) error    { return nil }

// Link gives the content a second name (the two names do not share later writes: sufficient for link+rename idioms).
func Link(oldname, newname string) error {
	b, ok := files[oldname]
	if !ok {
		return &os.LinkError{Op: "link", Old: oldname, New: newname, Err: os.ErrNotExist}
	}
	if _, exists := files[newname]; exists {
		return &os.LinkError{Op: "link", Old: oldname, New: newname, Err: os.ErrExist}
	}
	log = append(log, Op{Kind: "open", Name: newname, Trunc: true}, Op{Kind: "write", Name: newname, Data: append([]byte(nil), b...)}, Op{Kind: "close", Name: newname})
	files[newname] = append([]byte(nil), b...)
	return nil
}

// CreateTemp creates a new file with a deterministic name.
func CreateTemp(dir, pattern string) (*File, error) {
	tmpSeq++
	name := fmt.Sprintf("%s/%s%06d", dir, pattern, tmpSeq)
	if dir == "" {
		name = fmt.Sprintf("/tmp/%s%06d", pattern, tmpSeq)
	}
	return OpenFile(name, os.O_RDWR|os.O_CREATE|os.O_EXCL, 0o600)
}

type fileInfo struct {
	name string
	size int64
}

func (i fileInfo) Name() string       { return i.name }
func (i fileInfo) Size() int64        { return i.size }
func (i fileInfo) Mode() fs.FileMode  { return 0o644 }
func (i fileInfo) ModTime() time.Time { return time.Time{} }
func (i fileInfo) IsDir() bool        { return false }
func (i fileInfo) Sys() any           { return nil }

func Stat(name string) (os.FileInfo, error) {
	b, ok := files[name]
	if !ok {
		return nil, notExist("stat", name)
	}
	return fileInfo{name, int64(len(b))}, nil
}

func Lstat(name string) (os.FileInfo, error) { return Stat(name) }

// File is an open handle on the in-memory device.
type File struct {
	name   string
	pos    int
	rd, wr bool
	app    bool
	closed bool
}

func Open(name string) (*File, error) { return OpenFile(name, os.O_RDONLY, 0) }
func Create(name string) (*File, error) {
	return OpenFile(name, os.O_RDWR|os.O_CREATE|os.O_TRUNC, 0o666)
}

func OpenFile(name string, flag int, perm os.FileMode) (*File, error) {
	_, exists := files[name]
	if !exists && flag&os.O_CREATE == 0 {
		return nil, notExist("open", name)
	}
	if exists && flag&os.O_CREATE != 0 && flag&os.O_EXCL != 0 {
		return nil, &os.PathError{Op: "open", Path: name, Err: os.ErrExist}
	}
	f := &File{name: name, rd: flag&os.O_WRONLY == 0, wr: flag&(os.O_WRONLY|os.O_RDWR) != 0, app: flag&os.O_APPEND != 0}
	trunc := f.wr && flag&os.O_TRUNC != 0
	if f.wr || !exists {
		log = append(log, Op{Kind: "open", Name: name, Trunc: trunc})
	}
	if !exists || trunc {
		files[name] = []byte{}
	}
	return f, nil
}

func (f *File) Name() string { return f.name }

func (f *File) Write(b []byte) (int, error) {
	if f.closed {
		return 0, os.ErrClosed
	}
	if !f.wr {
		return 0, &os.PathError{Op: "write", Path: f.name, Err: os.ErrPermission}
	}
	cur := files[f.name]
	if f.app {
		f.pos = len(cur)
	}
	log = append(log, Op{Kind: "write", Name: f.name, Off: f.pos, Data: append([]byte(nil), b...)})
	files[f.name] = writeAt(cur, f.pos, b)
	f.pos += len(b)
	return len(b), nil
}

func writeAt(cur []byte, off int, b []byte) []byte {
	out := append([]byte(nil), cur...)
	if off+len(b) > len(out) {
		out = resize(out, off+len(b))
	}
	copy(out[off:], b)
	return out
}

func (f *File) WriteString(s string) (int, error) { return f.Write([]byte(s)) }

func (f *File) WriteAt(b []byte, off int64) (int, error) {
	if f.closed {
		return 0, os.ErrClosed
	}
	log = append(log, Op{Kind: "write", Name: f.name, Off: int(off), Data: append([]byte(nil), b...)})
	files[f.name] = writeAt(files[f.name], int(off), b)
	return len(b), nil
}

func (f *File) Read(b []byte) (int, error) {
	if f.closed {
		return 0, os.ErrClosed
	}
	cur := files[f.name]
	if f.pos >= len(cur) {
		return 0, io.EOF
	}
	n := copy(b, cur[f.pos:])
	f.pos += n
	return n, nil
}

func (f *File) ReadAt(b []byte, off int64) (int, error) {
	cur := files[f.name]
	if int(off) >= len(cur) {
		return 0, io.EOF
	}
	n := copy(b, cur[off:])
	if n < len(b) {
		return n, io.EOF
	}
	return n, nil
}

func (f *File) Seek(offset int64, whence int) (int64, error) {
	switch whence {
	case io.SeekStart:
		f.pos = int(offset)
	case io.SeekCurrent:
		f.pos += int(offset)
	case io.SeekEnd:
		f.pos = len(files[f.name]) + int(offset)
	}
	if f.pos < 0 {
		f.pos = 0
	}
	return int64(f.pos), nil
}

func (f *File) Truncate(size int64) error {
	log = append(log, Op{Kind: "truncate", Name: f.name, Off: int(size)})
	files[f.name] = resize(append([]byte(nil), files[f.name]...), int(size))
	return nil
}

func (f *File) Sync() error {
	if f.closed {
		return os.ErrClosed
	}
	log = append(log, Op{Kind: "sync", Name: f.name})
	return nil
}

func (f *File) Close() error {
	if f.closed {
		return os.ErrClosed
	}
	f.closed = true
	if f.wr {
		log = append(log, Op{Kind: "close", Name: f.name})
	}
	return nil
}

func (f *File) Stat() (os.FileInfo, error)   { return Stat(f.name) }
func (f *File) Chmod(mode os.FileMode) error { return nil }

// ---- harness side ----

// Put installs a file image directly.
func Put(name string, data []byte) { files[name] = append([]byte(nil), data...) }

// Get returns the current image.
func Get(name string) ([]byte, bool) { b, ok := files[name]; return b, ok }

// Log returns the logged operations.
func Log() []Op { return log }

// Files returns a copy of the device content.
func Files() map[string][]byte {
	m := map[string][]byte{}
	for k, v := range files {
		m[k] = append([]byte(nil), v...)
	}
	return m
}

// Install replaces the device content (the log is cleared).
func Install(m map[string][]byte) {
	files = map[string][]byte{}
	for k, v := range m {
		files[k] = append([]byte(nil), v...)
	}
	log = nil
}

// Apply executes one logged operation on a device image; partial >= 0 applies only the first partial bytes of a write
// (a write torn by a crash).
func Apply(m map[string][]byte, op Op, partial int) {
	switch op.Kind {
	case "open":
		if _, ok := m[op.Name]; !ok || op.Trunc {
			m[op.Name] = []byte{}
		}
	case "write":
		d := op.Data
		if partial >= 0 && partial < len(d) {
			d = d[:partial]
		}
		m[op.Name] = writeAt(m[op.Name], op.Off, d)
	case "truncate":
		m[op.Name] = resize(append([]byte(nil), m[op.Name]...), op.Off)
	case "rename":
		if b, ok := m[op.Old]; ok {
			m[op.Name] = b
			delete(m, op.Old)
		}
	case "remove":
		delete(m, op.Name)
	}
}

// Key is a canonical rendering of a device image.
func Key(m map[string][]byte) string {
	var names []string
	for k := range m {
		names = append(names, k)
	}
	sort.Strings(names)
	s := ""
	for _, k := range names {
		s += fmt.Sprintf("%s\x00%d\x00%s\x00", k, len(m[k]), m[k])
	}
	return s
}
