// Package vfuel is a deterministic non-termination oracle: every loop iteration of instrumented code burns one unit.
package vfuel

var fuel int64 = 1 << 62
var used int64

// Exhausted is the panic value raised when the budget is used up.
type Exhausted struct{}

func (Exhausted) Error() string { return "vfuel: budget exhausted (non-termination)" }

//go:norace
func Step() {
	fuel--
	if fuel < 0 {
		fuel = 1 << 62
		panic(Exhausted{})
	}
}

// Set gives the next operation a budget of n steps.
//
//go:norace
func Set(n int64) { fuel = n; used = n }

// Used returns the steps consumed since Set.
//
//go:norace
func Used() int64 { return used - fuel }

// Unlimited removes the budget.
//
//go:norace
func Unlimited() { fuel = 1 << 62 }
