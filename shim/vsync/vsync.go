// Package vsync replaces "sync" in the instrumented packages: same API, every operation is a scheduling point.
package vsync

import (
	"sync"
	"unsafe"

	"github.com/irai/packet/verifshim/vsched"
)

type Pool = sync.Pool
type WaitGroup = sync.WaitGroup
type Once = sync.Once
type Locker = sync.Locker

// Mutex mirrors sync.Mutex.
type Mutex struct {
	mu sync.Mutex
}

func (m *Mutex) Lock() {
	if vsched.Killing() {
		return
	}
	vsched.Lock(uintptr(unsafe.Pointer(m)))
	m.mu.Lock()
}

func (m *Mutex) Unlock() {
	if vsched.Killing() {
		return
	}
	vsched.Unlock(uintptr(unsafe.Pointer(m)))
	m.mu.Unlock()
}

// RWMutex mirrors sync.RWMutex including writer preference (a pending writer blocks new readers).
type RWMutex struct {
	mu sync.RWMutex
}

func (m *RWMutex) Lock() {
	if vsched.Killing() {
		return
	}
	id := uintptr(unsafe.Pointer(m))
	vsched.LockAnnounce(id)
	vsched.Lock(id)
	m.mu.Lock()
}

func (m *RWMutex) Unlock() {
	if vsched.Killing() {
		return
	}
	vsched.Unlock(uintptr(unsafe.Pointer(m)))
	m.mu.Unlock()
}

func (m *RWMutex) RLock() {
	if vsched.Killing() {
		return
	}
	vsched.RLock(uintptr(unsafe.Pointer(m)))
	m.mu.RLock()
}

func (m *RWMutex) RUnlock() {
	if vsched.Killing() {
		return
	}
	vsched.RUnlock(uintptr(unsafe.Pointer(m)))
	m.mu.RUnlock()
}
