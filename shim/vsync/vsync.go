// Package vsync replaces "sync" in the instrumented packages: same API, every operation is a scheduling point.
//
// Mutual exclusion is enforced by the scheduler's lock model; the embedded real mutex is only operated so that the race
// detector sees the program's own happens-before edges. A panic that unwinds while a lock is held (an explored
// violation) leaves the real mutex of a package level variable locked for ever; because the scheduler has already
// decided that the lock is free, a failed TryLock can only mean such a stale state and the real mutex is replaced.
package vsync

import (
	"sync"
	"time"
	"unsafe"

	"github.com/irai/packet/verifshim/vsched"
)

type Pool = sync.Pool
type WaitGroup = sync.WaitGroup
type Once = sync.Once
type Locker = sync.Locker

// Mutex mirrors sync.Mutex.
type Mutex struct {
	mu sync.Mutex
}

func (m *Mutex) real() *sync.Mutex { return &m.mu }

func (m *Mutex) Lock() {
	if vsched.Killing() {
		return
	}
	active := vsched.Active()
	vsched.Lock(uintptr(unsafe.Pointer(m)))
	if !active {
		plainAcquire(m.real().TryLock, "Mutex.Lock")
		return
	}
	if !m.real().TryLock() {
		m.mu = sync.Mutex{} // stale lock left behind by a panic in an earlier execution
		m.mu.Lock()
	}
}

// plainAcquire acquires a lock outside the controlled scheduler (sequential E-input harnesses). Such a harness has one
// goroutine driving the library; a lock that stays unavailable for 5 seconds of real time was leaked by an earlier call
// (a return path without Unlock): panicking reports it at once instead of leaving the worker to its hang watchdog.
func plainAcquire(try func() bool, what string) {
	if try() {
		return
	}
	deadline := time.Now().Add(5 * time.Second)
	for !try() {
		if time.Now().After(deadline) {
			panic("vsync: " + what + ": the lock was not released for 5s: it is held forever (leaked by an earlier call)")
		}
		time.Sleep(200 * time.Microsecond)
	}
}

func (m *Mutex) Unlock() {
	if vsched.Killing() {
		return
	}
	vsched.Unlock(uintptr(unsafe.Pointer(m)))
	m.real().Unlock()
}

// RWMutex mirrors sync.RWMutex including writer preference (a pending writer blocks new readers).
type RWMutex struct {
	mu sync.RWMutex
}

func (m *RWMutex) real() *sync.RWMutex { return &m.mu }

func (m *RWMutex) Lock() {
	if vsched.Killing() {
		return
	}
	active := vsched.Active()
	id := uintptr(unsafe.Pointer(m))
	vsched.LockAnnounce(id)
	vsched.Lock(id)
	if !active {
		plainAcquire(m.real().TryLock, "RWMutex.Lock")
		return
	}
	if !m.real().TryLock() {
		m.mu = sync.RWMutex{}
		m.mu.Lock()
	}
}

func (m *RWMutex) Unlock() {
	if vsched.Killing() {
		return
	}
	vsched.Unlock(uintptr(unsafe.Pointer(m)))
	m.real().Unlock()
}

func (m *RWMutex) RLock() {
	if vsched.Killing() {
		return
	}
	active := vsched.Active()
	vsched.RLock(uintptr(unsafe.Pointer(m)))
	if !active {
		plainAcquire(m.real().TryRLock, "RWMutex.RLock")
		return
	}
	if !m.real().TryRLock() {
		m.mu = sync.RWMutex{}
		m.mu.RLock()
	}
}

func (m *RWMutex) RUnlock() {
	if vsched.Killing() {
		return
	}
	vsched.RUnlock(uintptr(unsafe.Pointer(m)))
	m.real().RUnlock()
}
