// Package vrand replaces math/rand and crypto/rand in the instrumented packages with deterministic values.
package vrand

var counter uint32

// Reset restores the deterministic sequence.
//
//go:norace
func Reset() { counter = 0 }

func Seed(int64) {}

// Int31n returns 0: no jitter.
func Int31n(n int32) int32 { return 0 }
func Intn(n int) int       { return 0 }

// Read fills b from a counter (used for DHCP transaction ids).
//
//go:norace
func Read(b []byte) (int, error) {
	counter++
	c := counter
	for i := range b {
		b[i] = byte(c >> (8 * (uint(i) % 4)))
	}
	return len(b), nil
}
