// Package vtime replaces "time" in the instrumented packages with a virtual clock owned by vsched.
package vtime

import (
	"time"

	"github.com/irai/packet/verifshim/vsched"
)

type Time = time.Time
type Duration = time.Duration
type Month = time.Month
type Location = time.Location

const (
	Nanosecond  = time.Nanosecond
	Microsecond = time.Microsecond
	Millisecond = time.Millisecond
	Second      = time.Second
	Minute      = time.Minute
	Hour        = time.Hour

	StampMilli = time.StampMilli
	RFC3339    = time.RFC3339
)

var UTC = time.UTC

func Now() Time                                { return time.Unix(0, vsched.NowNanos()) }
func Since(t Time) Duration                    { return Now().Sub(t) }
func Until(t Time) Duration                    { return t.Sub(Now()) }
func Unix(sec int64, nsec int64) Time          { return time.Unix(sec, nsec) }
func ParseDuration(s string) (Duration, error) { return time.ParseDuration(s) }
func Date(year int, month Month, day, hour, min, sec, nsec int, loc *Location) Time {
	return time.Date(year, month, day, hour, min, sec, nsec, loc)
}

func Sleep(d Duration) {
	if !vsched.Active() {
		return // plain mode: sleeping is a no-op
	}
	if d <= 0 {
		vsched.Yield()
		return
	}
	ch := make(chan Time, 1)
	vsched.TimerNew(ch, int64(d), 0)
	vsched.Recv((<-chan Time)(ch))
}

func After(d Duration) <-chan Time {
	ch := make(chan Time, 1)
	vsched.TimerNew(ch, int64(d), 0)
	return ch
}

type Ticker struct {
	C  <-chan Time
	id int
}

func NewTicker(d Duration) *Ticker {
	if d <= 0 {
		panic("non-positive interval for NewTicker")
	}
	ch := make(chan Time, 1)
	id := vsched.TimerNew(ch, int64(d), int64(d))
	return &Ticker{C: ch, id: id}
}

func (t *Ticker) Stop() { vsched.TimerStop(t.id) }

func Tick(d Duration) <-chan Time { return NewTicker(d).C }

type Timer struct {
	C  <-chan Time
	id int
}

func NewTimer(d Duration) *Timer {
	ch := make(chan Time, 1)
	id := vsched.TimerNew(ch, int64(d), 0)
	return &Timer{C: ch, id: id}
}

func (t *Timer) Stop() bool { vsched.TimerStop(t.id); return true }
