//go:build race

package vsched

import "runtime"

// RaceBuild reports whether the binary was built with the race detector.
const RaceBuild = true

func raceDisable() { runtime.RaceDisable() }
func raceEnable()  { runtime.RaceEnable() }
