//go:build !race

package vsched

const RaceBuild = false

func raceDisable() {}
func raceEnable()  {}
