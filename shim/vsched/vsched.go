// Package vsched is the controlled cooperative scheduler injected (through go build -overlay) under
// github.com/irai/packet/verifshim/vsched. Exactly one registered goroutine runs at a time; every lock,
// channel, goroutine-spawn and timer operation of the instrumented packages is a scheduling point that is
// decided by a dedicated scheduler goroutine from a recorded choice sequence (DFS driven by the harness).
//
// Race detector transparency: worker <-> scheduler hand-offs are bracketed by runtime.RaceDisable/Enable and
// carry values only, so that the race detector sees exactly the synchronisation of the program under test.
package vsched

import (
	"fmt"
	"reflect"
	"runtime/debug"
	"sort"
	"strconv"
	"strings"
	"time"
)

// Mode selects how the clock pseudo thread behaves.
type Mode int

const (
	// ModeSeq: default schedule only is meaningful; the clock advances only through Advance() or when nothing at all is enabled.
	ModeSeq Mode = iota
	// ModeConc: the clock firing is an alternative at every scheduling point (a deviation).
	ModeConc
)

type opKind int

const (
	opNone opKind = iota
	opStart
	opYield
	opLockAnnounce
	opLock
	opRLock
	opUnlock
	opRUnlock
	opRecv
	opSend
	opSelect
	opClose
	opSpawn
	opExit
	opWaitIdle
	opTimerNew
	opTimerStop
	opAdvance
	opNote
)

var opNames = [...]string{"none", "start", "yield", "lockann", "lock", "rlock", "unlock", "runlock", "recv", "send", "select", "close", "spawn", "exit", "waitidle", "timernew", "timerstop", "advance", "note"}

// request is passed by value from a worker goroutine to the scheduler goroutine.
type request struct {
	gid        int
	kind       opKind
	obj        uintptr
	chans      [6]reflect.Value
	nchans     int
	hasDefault bool
	dur        int64 // timer: delay ; advance: delta
	period     int64
	timerID    int
	tag        string
}

type reply struct {
	val  int
	kill bool
	wake chan reply // for spawn: the child's wake channel
}

type gstate struct {
	gid     int
	wake    chan reply
	pending request
	waiting bool // parked with a pending op
	exited  bool
	name    string
}

type lockState struct {
	writer    int   // gid or -1
	readers   []int // gids (multiset)
	announced []int // writers that announced
}

type timer struct {
	id       int
	deadline int64
	period   int64
	ch       reflect.Value
	stopped  bool
}

// Alt is one alternative at a scheduling point.
type Alt struct {
	Gid     int // -1 = clock
	Variant int // select case index
}

// Point records a scheduling decision.
type Point struct {
	Alts           []Alt
	Chosen         int
	RunningEnabled bool // the goroutine that was running is still enabled (alt 0 is it)
	Desc           string
}

// Outcome classification of an execution.
type Outcome int

const (
	Complete Outcome = iota
	Deadlock
	Panicked
	StepLimit
	Diverged
	Horizon // the main goroutine is blocked on a timer beyond the clock horizon
)

func (o Outcome) String() string {
	return [...]string{"complete", "deadlock", "panic", "steplimit", "diverged", "horizon"}[o]
}

// Config of one execution.
type Config struct {
	Mode            Mode
	Prefix          []int // choices to replay; afterwards choice 0
	MaxClockFirings int   // conc mode: horizon
	MaxPoints       int   // safety net (0 = 200000)
	RecordPoints    bool
	BaseTime        int64 // unix nanos of virtual time zero
}

// Execution is the result of Run.
type Execution struct {
	Points       []Point
	Outcome      Outcome
	Panics       []string
	Blocked      []string // goroutines blocked when the execution ended (descriptions)
	BlockedLocks int      // number of goroutines blocked on a lock at the end
	MainDone     bool
	AliveAtEnd   int // goroutines still alive (not exited) when the execution ended (before kill)
	TimerBlocked int // of those, blocked on a timer channel
	Contention   int // number of points at which some goroutine was disabled (lock held / chan not ready)
	ClockFirings int
	EndTime      int64
	NGoroutines  int
	Killed       int
}

type killSentinel struct{}

// global scheduler state; owned by the scheduler goroutine while an execution is active.
var (
	active   bool // an execution is running: shims route through the scheduler
	killing  bool // tear down: shims become no-ops
	reqCh    = make(chan request)
	exitCh   = make(chan int, 4096) // visible (race detector) release from every goroutine at exit
	curGid   int                    // gid of the running goroutine; written by the scheduler, read by workers via norace accessor
	clockNow int64                  // virtual time in unix nanos

	plainNow int64 = defaultBase // virtual time when no execution is active
)

const defaultBase = int64(1700000000) * 1e9

// Active reports whether a controlled execution is in progress.
//
//go:norace
func Active() bool { return active && !killing }

//go:norace
func isKilling() bool { return killing }

//go:norace
func getCur() int { return curGid }

// NowNanos returns the virtual time.
//
//go:norace
func NowNanos() int64 {
	if active {
		return clockNow
	}
	return plainNow
}

// SetPlainNow sets the virtual clock used outside controlled executions.
//
//go:norace
func SetPlainNow(v int64) { plainNow = v }

// AdvancePlain moves the plain clock.
//
//go:norace
func AdvancePlain(d int64) { plainNow += d }

type sched struct {
	cfg      Config
	gs       []*gstate
	locks    map[uintptr]*lockState
	closed   map[uintptr]bool
	keep     []reflect.Value // keep channels alive so that addresses are not reused within an execution
	timers   []*timer
	ex       *Execution
	running  int // gid running, -1 none
	nextTID  int
	firings  int
	mainDone bool
	aborted  bool
}

// Run executes main under the scheduler and returns when every goroutine created inside has exited.
func Run(cfg Config, main func()) *Execution {
	if active {
		panic("vsched: nested Run")
	}
	if cfg.MaxPoints == 0 {
		cfg.MaxPoints = 200000
	}
	if cfg.BaseTime == 0 {
		cfg.BaseTime = defaultBase
	}
	s := &sched{cfg: cfg, locks: map[uintptr]*lockState{}, closed: map[uintptr]bool{}, ex: &Execution{}, running: -1}
	setGlobals(true, false, 0, cfg.BaseTime)
	done := make(chan struct{})
	g0 := &gstate{gid: 0, wake: make(chan reply, 1), name: "main"}
	s.gs = append(s.gs, g0)
	g0.pending = request{gid: 0, kind: opStart}
	g0.waiting = true
	go s.loop(done)
	go worker(0, g0.wake, main)
	<-done // visible edge scheduler -> caller
	// visible edges from every goroutine that ran
	n := s.ex.NGoroutines
	for i := 0; i < n; i++ {
		<-exitCh
	}
	setGlobals(false, false, 0, 0)
	return s.ex
}

//go:norace
func setGlobals(a, k bool, cur int, now int64) {
	active = a
	killing = k
	curGid = cur
	if a {
		clockNow = now
	}
}

//go:norace
func setCur(g int) { curGid = g }

//go:norace
func setNow(v int64) { clockNow = v }

//go:norace
func setKilling(v bool) { killing = v }

func worker(gid int, wake chan reply, f func()) {
	raceDisable()
	r := <-wake
	raceEnable()
	defer func() {
		if e := recover(); e != nil {
			if _, ok := e.(killSentinel); !ok {
				msg := fmt.Sprintf("%v\n%s", e, debug.Stack())
				call(request{gid: gid, kind: opNote, tag: "PANIC " + msg})
			}
		}
		exitCh <- gid // visible release
		raceDisable()
		reqCh <- request{gid: gid, kind: opExit}
		raceEnable()
	}()
	if r.kill {
		panic(killSentinel{})
	}
	f()
}

// call submits a request and parks until granted.
func call(r request) reply {
	g := getCur()
	r.gid = g
	w := wakeOf(g)
	raceDisable()
	reqCh <- r
	rep := <-w
	raceEnable()
	if rep.kill {
		panic(killSentinel{})
	}
	return rep
}

// wake channels indexed by gid; written by the scheduler goroutine before the goroutine first runs.
var wakes [4096]chan reply

//go:norace
func wakeOf(g int) chan reply { return wakes[g] }

//go:norace
func setWake(g int, c chan reply) { wakes[g] = c }

func (s *sched) loop(done chan struct{}) {
	raceDisable()
	setWake(0, s.gs[0].wake)
	s.ex.NGoroutines = 1
	for {
		if !s.step() {
			break
		}
	}
	s.teardown()
	raceEnable()
	close(done)
}

func chanID(v reflect.Value) uintptr { return v.Pointer() }

func (s *sched) lock(id uintptr) *lockState {
	l := s.locks[id]
	if l == nil {
		l = &lockState{writer: -1}
		s.locks[id] = l
	}
	return l
}

func (s *sched) chanReady(v reflect.Value, send bool) bool {
	if s.closed[chanID(v)] {
		return true
	}
	if send {
		return v.Len() < v.Cap()
	}
	return v.Len() > 0
}

// enabledVariants returns the variants with which g can run now (nil = disabled).
func (s *sched) enabledVariants(g *gstate) []int {
	p := &g.pending
	switch p.kind {
	case opLock:
		l := s.lock(p.obj)
		if l.writer == -1 && len(l.readers) == 0 {
			return []int{0}
		}
		return nil
	case opRLock:
		l := s.lock(p.obj)
		if l.writer == -1 && len(l.announced) == 0 {
			return []int{0}
		}
		return nil
	case opRecv:
		if s.chanReady(p.chans[0], false) {
			return []int{0}
		}
		return nil
	case opSend:
		if s.chanReady(p.chans[0], true) {
			return []int{0}
		}
		return nil
	case opSelect:
		var v []int
		for i := 0; i < p.nchans; i++ {
			if s.chanReady(p.chans[i], false) {
				v = append(v, i)
			}
		}
		if len(v) == 0 && p.hasDefault {
			return []int{-1}
		}
		return v
	case opWaitIdle:
		return nil // handled separately
	}
	return []int{0}
}

func (s *sched) pendingTimers() bool {
	for _, t := range s.timers {
		if !t.stopped {
			return true
		}
	}
	return false
}

func descOf(g *gstate) string {
	p := &g.pending
	return "g" + strconv.Itoa(g.gid) + ":" + opNames[p.kind] // (no fmt here: its printer pool is invisible to the race detector inside the scheduler)
}

// step performs one scheduling decision. Returns false when the execution is over.
func (s *sched) step() bool {
	if s.aborted {
		return false
	}
	var alts []Alt
	runningEnabled := false
	disabledSome := false
	// the goroutine that just ran is listed first if still enabled
	order := make([]*gstate, 0, len(s.gs))
	if s.running >= 0 {
		order = append(order, s.gs[s.running])
	}
	for _, g := range s.gs {
		if g.gid != s.running {
			order = append(order, g)
		}
	}
	var idle []*gstate
	for i, g := range order {
		if g.exited || !g.waiting {
			continue
		}
		if g.pending.kind == opWaitIdle {
			idle = append(idle, g)
			continue
		}
		vs := s.enabledVariants(g)
		if vs == nil {
			disabledSome = true
			continue
		}
		if i == 0 && s.running >= 0 {
			runningEnabled = true
		}
		for _, v := range vs {
			alts = append(alts, Alt{Gid: g.gid, Variant: v})
		}
	}
	if len(alts) == 0 {
		for _, g := range idle {
			alts = append(alts, Alt{Gid: g.gid})
		}
		if len(alts) > 0 && idle[0].gid == s.running {
			runningEnabled = true
		}
	}
	clockOK := s.pendingTimers() && (s.cfg.MaxClockFirings == 0 || s.firings < s.cfg.MaxClockFirings)
	if s.mainDone && s.cfg.MaxClockFirings == 0 {
		clockOK = false // nobody is waiting for time to pass any more: periodic timers must not keep the execution alive
	}
	if len(alts) == 0 {
		if clockOK {
			alts = append(alts, Alt{Gid: -1})
		}
	} else if s.cfg.Mode == ModeConc && clockOK {
		alts = append(alts, Alt{Gid: -1})
	}
	if disabledSome {
		s.ex.Contention++
	}
	if len(alts) == 0 {
		s.finish()
		return false
	}
	idx := len(s.ex.Points)
	choice := 0
	if idx < len(s.cfg.Prefix) {
		choice = s.cfg.Prefix[idx]
		if choice < 0 || choice >= len(alts) {
			s.ex.Outcome = Diverged
			s.ex.Panics = append(s.ex.Panics, fmt.Sprintf("replay divergence at point %d: choice %d of %d alternatives", idx, choice, len(alts)))
			s.aborted = true
			return false
		}
	}
	if idx >= s.cfg.MaxPoints {
		s.ex.Outcome = StepLimit
		s.aborted = true
		return false
	}
	a := alts[choice]
	pt := Point{Chosen: choice, RunningEnabled: runningEnabled}
	if s.cfg.RecordPoints {
		pt.Alts = alts
		if a.Gid >= 0 {
			pt.Desc = descOf(s.gs[a.Gid])
		} else {
			pt.Desc = "clock"
		}
	} else {
		pt.Alts = alts
	}
	s.ex.Points = append(s.ex.Points, pt)
	if a.Gid == -1 {
		s.fireClock()
		s.running = -1
		return true
	}
	s.grant(s.gs[a.Gid], a.Variant)
	return true
}

func remove(list []int, v int) []int {
	for i, x := range list {
		if x == v {
			return append(list[:i:i], list[i+1:]...)
		}
	}
	return list
}

// grant applies the pending operation of g to the model, lets g run and waits for its next request.
func (s *sched) grant(g *gstate, variant int) {
	p := g.pending
	rep := reply{val: variant}
	switch p.kind {
	case opLockAnnounce:
		l := s.lock(p.obj)
		l.announced = append(l.announced, g.gid)
	case opLock:
		l := s.lock(p.obj)
		l.writer = g.gid
		l.announced = remove(l.announced, g.gid)
	case opRLock:
		l := s.lock(p.obj)
		l.readers = append(l.readers, g.gid)
	case opUnlock:
		l := s.lock(p.obj)
		l.writer = -1
	case opRUnlock:
		l := s.lock(p.obj)
		l.readers = remove(l.readers, g.gid)
	case opClose:
		s.closed[chanID(p.chans[0])] = true
		s.keep = append(s.keep, p.chans[0])
	case opSpawn:
		child := &gstate{gid: len(s.gs), wake: make(chan reply, 1), waiting: true, name: p.tag}
		child.pending = request{gid: child.gid, kind: opStart}
		if child.gid >= len(wakes) {
			panic("vsched: too many goroutines")
		}
		s.gs = append(s.gs, child)
		setWake(child.gid, child.wake)
		s.ex.NGoroutines++
		rep.val = child.gid
		rep.wake = child.wake
	case opTimerNew:
		s.nextTID++
		t := &timer{id: s.nextTID, deadline: NowNanos() + p.dur, period: p.period, ch: p.chans[0]}
		s.timers = append(s.timers, t)
		s.keep = append(s.keep, p.chans[0])
		rep.val = t.id
	case opTimerStop:
		for _, t := range s.timers {
			if t.id == p.timerID {
				t.stopped = true
			}
		}
	case opAdvance:
		s.advance(NowNanos() + p.dur)
	case opNote:
		if strings.HasPrefix(p.tag, "PANIC ") {
			s.ex.Panics = append(s.ex.Panics, p.tag[6:])
			s.ex.Outcome = Panicked
		}
	}
	g.waiting = false
	s.running = g.gid
	setCur(g.gid)
	g.wake <- rep
	// wait for the next request of the running goroutine
	r := <-reqCh
	rg := s.gs[r.gid]
	if r.kind == opExit {
		rg.exited = true
		rg.waiting = false
		if r.gid == 0 {
			s.mainDone = true
		}
		if s.ex.Outcome == Panicked {
			s.aborted = true
		}
		s.running = -1
		return
	}
	rg.pending = r
	rg.waiting = true
}

// advance moves the clock to target firing all timers due, in (deadline, id) order.
func (s *sched) advance(target int64) {
	for {
		var next *timer
		for _, t := range s.timers {
			if t.stopped || t.deadline > target {
				continue
			}
			if next == nil || t.deadline < next.deadline || (t.deadline == next.deadline && t.id < next.id) {
				next = t
			}
		}
		if next == nil {
			break
		}
		if next.deadline > NowNanos() {
			setNow(next.deadline)
		}
		s.fire(next, target)
	}
	if target > NowNanos() {
		setNow(target)
	}
}

func (s *sched) fire(t *timer, target int64) {
	// non blocking send of the current time, like the runtime does for tickers
	tv := reflect.ValueOf(time.Unix(0, NowNanos()))
	t.ch.TrySend(tv)
	if t.period > 0 {
		// drop the ticks that the 1 slot channel cannot hold: next deadline strictly after now
		t.deadline += t.period
		if t.deadline <= target {
			n := (target - t.deadline) / t.period
			t.deadline += n * t.period
		}
	} else {
		t.stopped = true
	}
}

func (s *sched) fireClock() {
	var next *timer
	for _, t := range s.timers {
		if t.stopped {
			continue
		}
		if next == nil || t.deadline < next.deadline || (t.deadline == next.deadline && t.id < next.id) {
			next = t
		}
	}
	if next == nil {
		return
	}
	s.firings++
	s.ex.ClockFirings++
	target := next.deadline
	if target < NowNanos() {
		target = NowNanos()
	}
	s.advance(target)
}

func (s *sched) finish() {
	s.ex.MainDone = s.mainDone
	s.ex.EndTime = NowNanos()
	mainOnTimer := false
	for _, g := range s.gs {
		if g.exited {
			continue
		}
		s.ex.AliveAtEnd++
		d := descOf(g)
		onTimer := false
		switch g.pending.kind {
		case opLock, opRLock:
			s.ex.BlockedLocks++
		case opRecv, opSelect:
			for i := 0; i < g.pending.nchans; i++ {
				for _, t := range s.timers {
					if !t.stopped && chanID(t.ch) == chanID(g.pending.chans[i]) {
						onTimer = true
					}
				}
			}
		}
		if onTimer {
			s.ex.TimerBlocked++
			d += "(timer)"
			if g.gid == 0 {
				mainOnTimer = true
			}
		}
		s.ex.Blocked = append(s.ex.Blocked, d)
	}
	sort.Strings(s.ex.Blocked)
	if s.ex.Outcome == Complete {
		if s.ex.BlockedLocks > 0 {
			s.ex.Outcome = Deadlock
		} else if !s.mainDone {
			if mainOnTimer {
				s.ex.Outcome = Horizon
			} else {
				s.ex.Outcome = Deadlock
			}
		}
	}
}

// teardown unwinds every parked goroutine, one at a time.
func (s *sched) teardown() {
	setKilling(true)
	for _, g := range s.gs {
		if g.exited {
			continue
		}
		s.ex.Killed++
		g.wake <- reply{kill: true}
		for {
			r := <-reqCh
			if r.kind == opExit && r.gid == g.gid {
				g.exited = true
				break
			}
			// a dying goroutine may issue requests from deferred functions only if shims misbehave
			panic(fmt.Sprintf("vsched: request %s from g%d during teardown", opNames[r.kind], r.gid))
		}
	}
}

// ---- worker side API ----

// InlineGo makes Go run f synchronously while no controlled execution is active. Free running harnesses (C08) set it
// around a single handler call: the short lived goroutines of the handlers (forced DHCP declines) then run to
// completion inside the call instead of racing with the next case (and with the loop budget, which is global).
var InlineGo bool

// Go starts f as a controlled goroutine.
func Go(f func()) {
	if !Active() {
		if isKilling() {
			return
		}
		if InlineGo {
			f()
			return
		}
		go f()
		return
	}
	rep := call(request{kind: opSpawn})
	go worker(rep.val, rep.wake, f) // real go statement: the parent->child edge is visible to the race detector
}

// Yield is an explicit scheduling point.
func Yield() {
	if !Active() {
		return
	}
	call(request{kind: opYield})
}

// WaitIdle blocks the caller until no other goroutine can run.
func WaitIdle() {
	if !Active() {
		return
	}
	call(request{kind: opWaitIdle})
}

// LockAnnounce is the first half of a writer lock on a RWMutex.
func LockAnnounce(id uintptr) {
	if !Active() {
		return
	}
	call(request{kind: opLockAnnounce, obj: id})
}

// Lock blocks until the write lock can be taken.
func Lock(id uintptr) {
	if !Active() {
		return
	}
	call(request{kind: opLock, obj: id})
}

func RLock(id uintptr) {
	if !Active() {
		return
	}
	call(request{kind: opRLock, obj: id})
}

func Unlock(id uintptr) {
	if !Active() {
		return
	}
	call(request{kind: opUnlock, obj: id})
}

func RUnlock(id uintptr) {
	if !Active() {
		return
	}
	call(request{kind: opRUnlock, obj: id})
}

// Killing reports that the execution is being torn down: shims must not touch real primitives.
func Killing() bool { return isKilling() }

func Recv[T any](ch <-chan T) T {
	if isKilling() {
		panic(killSentinel{})
	}
	if Active() {
		r := request{kind: opRecv, nchans: 1}
		r.chans[0] = reflect.ValueOf(ch)
		call(r)
	}
	return <-ch
}

func Recv2[T any](ch <-chan T) (T, bool) {
	if isKilling() {
		panic(killSentinel{})
	}
	if Active() {
		r := request{kind: opRecv, nchans: 1}
		r.chans[0] = reflect.ValueOf(ch)
		call(r)
	}
	v, ok := <-ch
	return v, ok
}

func Send[T any](ch chan<- T, v T) {
	if isKilling() {
		return
	}
	if Active() {
		if cap(ch) == 0 {
			panic("vsched: send on unbuffered channel is not supported")
		}
		r := request{kind: opSend, nchans: 1}
		r.chans[0] = reflect.ValueOf(ch)
		call(r)
	}
	ch <- v
}

// TrySend is the non-blocking send idiom `select { case ch <- v: default: }`: one scheduling point, then the real
// non-blocking send (which panics on a closed channel exactly as the original statement does).
func TrySend[T any](ch chan<- T, v T) bool {
	if isKilling() {
		return false
	}
	if Active() {
		call(request{kind: opYield})
	}
	select {
	case ch <- v:
		return true
	default:
		return false
	}
}

func Close[T any](ch chan T) {
	if isKilling() {
		return
	}
	if Active() {
		r := request{kind: opClose, nchans: 1}
		r.chans[0] = reflect.ValueOf(ch)
		call(r)
	}
	close(ch)
}

// Select waits until one of the receive cases is ready, performs that receive (the value is discarded: the
// instrumented code base only has value-less receive cases) and returns its index, or -1 for the default clause.
func Select(hasDefault bool, chans ...any) int {
	if isKilling() {
		panic(killSentinel{})
	}
	if !Active() {
		cases := make([]reflect.SelectCase, 0, len(chans)+1)
		for _, c := range chans {
			cases = append(cases, reflect.SelectCase{Dir: reflect.SelectRecv, Chan: reflect.ValueOf(c)})
		}
		if hasDefault {
			cases = append(cases, reflect.SelectCase{Dir: reflect.SelectDefault})
		}
		i, _, _ := reflect.Select(cases)
		if hasDefault && i == len(chans) {
			return -1
		}
		return i
	}
	if len(chans) > 6 {
		panic("vsched: select with more than 6 cases")
	}
	r := request{kind: opSelect, nchans: len(chans), hasDefault: hasDefault}
	for i, c := range chans {
		r.chans[i] = reflect.ValueOf(c)
	}
	i := call(r).val
	if i >= 0 {
		reflect.ValueOf(chans[i]).Recv() // cannot block: the scheduler saw it ready and nothing ran since
	}
	return i
}

// TimerNew registers a timer that sends on ch after d and then every period (0 = one shot).
func TimerNew(ch any, d int64, period int64) int {
	if !Active() {
		return 0 // plain mode: timers never fire
	}
	r := request{kind: opTimerNew, nchans: 1, dur: d, period: period}
	r.chans[0] = reflect.ValueOf(ch)
	return call(r).val
}

func TimerStop(id int) {
	if !Active() || id == 0 {
		return
	}
	call(request{kind: opTimerStop, timerID: id})
}

// Advance moves virtual time forward firing the timers that become due.
func Advance(d int64) {
	if !Active() {
		AdvancePlain(d)
		return
	}
	call(request{kind: opAdvance, dur: d})
}

// CurrentGid returns the id of the running controlled goroutine.
func CurrentGid() int { return getCur() }

// MapKeys returns the keys of m in a deterministic order (sorted by their printed form): the instrumented packages
// iterate maps through it so that Go's randomised iteration order cannot make an execution non reproducible.
// MapOrderReverse flips the order (harnesses can run a scenario under both orders).
var MapOrderReverse bool

// keyString avoids fmt for the common key types: fmt's printer pool hands objects from goroutine to goroutine with
// synchronisation that the race detector cannot see across the scheduler's (deliberately invisible) hand-offs.
func keyString(k any) string {
	switch v := k.(type) {
	case string:
		return v
	case fmt.Stringer:
		return v.String()
	case int:
		return strconv.Itoa(v)
	case uint16:
		return strconv.Itoa(int(v))
	case uint8:
		return strconv.Itoa(int(v))
	case uint32:
		return strconv.FormatUint(uint64(v), 10)
	}
	return fmt.Sprintf("%v", k)
}

func MapKeys[M ~map[K]V, K comparable, V any](m M) []K {
	keys := make([]K, 0, len(m))
	strs := make([]string, 0, len(m))
	for k := range m {
		keys = append(keys, k)
		strs = append(strs, keyString(any(k)))
	}
	idx := make([]int, len(keys))
	for i := range idx {
		idx[i] = i
	}
	sort.Slice(idx, func(a, b int) bool {
		if MapOrderReverse {
			return strs[idx[a]] > strs[idx[b]]
		}
		return strs[idx[a]] < strs[idx[b]]
	})
	out := make([]K, len(keys))
	for i, j := range idx {
		out[i] = keys[j]
	}
	return out
}
