#!/bin/sh
# Builds the verification framework from files on disk only (offline).
set -e
export GOFLAGS=-mod=mod GOPROXY=off GOSUMDB=off GOTOOLCHAIN=local
cd /verif/tools
mkdir -p /verif/bin /verif/evidence /verif/replays
go build -o /verif/bin/vinstr ./vinstr
go build -o /verif/bin/vcheck ./vcheck
cp /repo/go.sum /verif/harness/go.sum
# warm the build cache (plain and race harness) and run the engine self tests
/verif/bin/vcheck selftest
